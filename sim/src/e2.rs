//! Engine E2 (process boundary) — under construction.
use crate::Args;
use serde_json::Value;

pub fn main(_a: &Args) -> i32 {
    eprintln!("e2: not built yet");
    2
}
pub fn replay(_doc: &Value, _a: &Args) -> i32 {
    2
}
