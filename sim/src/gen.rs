//! Seeded generators for rules, data and texts. Everything is drawn from the run's `Rng`.
//!
//! The generators are boundary-heavy on purpose (extreme integers and doubles, multi-byte
//! characters, deep nesting, every operator with 0..6 operands): a fault or a preemption that
//! lands on a trivial evaluation tests nothing.

use serde_json::{json, Map, Number, Value};

use crate::prng::Rng;

pub const EAGER_OPS: &[&str] = &[
    "==", "!=", "===", "!==", "!", "!!", "<", "<=", ">", ">=", "+", "-", "*", "/", "%", "max", "min", "merge", "in", "cat", "substr", "log",
];
pub const DATA_OPS: &[&str] = &["var", "missing", "missing_some"];
pub const LAZY_OPS: &[&str] = &["if", "?:", "or", "and", "map", "filter", "reduce", "all", "some", "none"];
pub const NEAR_MISS_KEYS: &[&str] = &["foo", "VAR", " var", "var ", "If", "=", "====", "lo", "logg", "", "missing_all"];

pub const KEYS: &[&str] = &["a", "b", "c", "x", "y", "current", "accumulator", "0", "1", "", "a.b", "k"];

pub struct Corpus {
    /// (rule text, data text) from the shared JsonLogic test file
    pub cases: Vec<(String, String)>,
}

impl Corpus {
    pub fn load() -> Corpus {
        let raw: Value = serde_json::from_str(include_str!("../corpus/tests.json")).expect("corpus");
        let mut cases = Vec::new();
        for c in raw.as_array().unwrap() {
            if let Value::Array(t) = c {
                if t.len() == 3 {
                    cases.push((t[0].to_string(), t[1].to_string()));
                }
            }
        }
        Corpus { cases }
    }
}

fn f(x: f64) -> Value {
    Value::Number(Number::from_f64(x).expect("finite"))
}

pub fn number_atom(rng: &mut Rng) -> Value {
    match rng.below(34) {
        0 => json!(0),
        1 => json!(1),
        2 => json!(-1),
        3 => json!(2),
        4 => json!(3),
        5 => f(0.5),
        6 => f(-0.0),
        7 => f(1e308),
        8 => f(1.7976931348623157e308),
        9 => f(5e-324),
        10 => json!(9007199254740992u64),
        11 => json!(9007199254740993u64),
        12 => json!(i64::MAX),
        13 => json!(i64::MIN),
        14 => json!(u64::MAX),
        15 => f(1e19),
        16 => f(-1e19),
        17 => f(1.5),
        18 => json!(100),
        19 => json!(-2),
        20 => f(-1.7976931348623157e308),
        21 => f(9.223372036854775807e18),
        22 => f(-9.223372036854775808e18),
        23 => json!(i64::MIN + 1),
        24 => json!(4294967296u64),
        25 => f(1.0),
        26 => f(2.5e-7),
        27 => json!(-9007199254740993i64),
        28 => f(1e21),
        29 => f(0.1),
        _ => json!(rng.below(12) as i64 - 3),
    }
}

pub const STRINGS: &[&str] = &[
    "", "a", "abc", "0", "1", " 1 ", "1e3", "12px", "-", "inf", "NaN", "Infinity", "null", "true", "[object Object]", "é", "日本語", "😀", "a.b",
    "x\u{0}y", "\"q\"", "apple", "0x10", "-0", "1,2", "+5", ".5", "1e400", "ß", "a\u{301}", "\u{10FFFF}", "\n", "\\",
    "9223372036854775808", "-9223372036854775809", "abcdefghijklmnopqrstuvwxyzabcdefghijklmnopqrstuvwxyzabcdefghijklmnopqrstuvwxyz0123456789",
];

pub fn string_atom(rng: &mut Rng) -> Value {
    if rng.chance(1, 14) {
        // long values: error messages quote them, results echo them, buffers have thresholds
        let unit = *rng.pick(&["é", "中", "😀", "aé", "naïve ", "x", "日本語", "ab"]);
        let n = *rng.pick(&[40usize, 70, 111, 130, 300]);
        let mut s = if rng.chance(1, 2) { String::from("a") } else { String::new() };
        s.push_str(&unit.repeat(n));
        return Value::String(s);
    }
    Value::String((*rng.pick(STRINGS)).to_string())
}

pub fn atom(rng: &mut Rng) -> Value {
    match rng.below(12) {
        0 | 1 | 2 | 3 => number_atom(rng),
        4 | 5 | 6 => string_atom(rng),
        7 => Value::Null,
        8 => Value::Bool(rng.chance(1, 2)),
        9 => match rng.below(5) {
            0 => json!([]),
            1 => json!([0]),
            2 => json!([[]]),
            3 => json!([1, 2, 3]),
            _ => json!(["a", "b"]),
        },
        10 => match rng.below(3) {
            0 => json!({}),
            1 => json!({"a": 1}),
            _ => json!({"a": {"b": 2}, "c": [1, 2]}),
        },
        _ => number_atom(rng),
    }
}

/// Plain data (no intention of being a rule, though it may look like one).
pub fn data(rng: &mut Rng, depth: usize) -> Value {
    if depth == 0 {
        return atom(rng);
    }
    match rng.below(10) {
        0 | 1 | 2 | 3 => {
            let n = size(rng);
            let mut m = Map::new();
            for _ in 0..n {
                let k = *rng.pick(KEYS);
                m.insert(k.to_string(), data(rng, depth - 1));
            }
            Value::Object(m)
        }
        4 | 5 | 6 => {
            let n = size(rng);
            Value::Array((0..n).map(|_| data(rng, depth - 1)).collect())
        }
        7 => {
            // operation-shaped data: must stay inert
            let k = *rng.pick(&["var", "+", "log", "if", "cat"]);
            json!({ k: [data(rng, depth - 1)] })
        }
        _ => atom(rng),
    }
}

pub fn var_path(rng: &mut Rng) -> Value {
    match rng.below(15) {
        // the edges of path splitting: separators and escapes at the ends, doubled, alone
        14 => json!(*rng.pick(&["\\", "a\\", "a.\\", "a\\\\.b", ".", "..", "a.", ".a", "a..b", "\\.", "a\\.", "0.", "é.\\"])),
        0 => json!(""),
        1 => Value::Null,
        2 => json!(rng.below(4) as i64),
        3 => json!(-(rng.below(4) as i64) - 1),
        4 => json!(i64::MIN),
        5 => json!(i64::MAX),
        6 => f(1.5),
        7 | 8 => {
            let a = *rng.pick(KEYS);
            let b = *rng.pick(KEYS);
            json!(format!("{}.{}", a, b))
        }
        9 => json!(format!("{}.{}", rng.pick(KEYS), rng.below(3))),
        10 => json!(format!("{}.-{}", rng.pick(KEYS), rng.below(3) + 1)),
        11 => json!("a\\.b"),
        _ => json!(*rng.pick(KEYS)),
    }
}

/// Collection sizes: mostly small, sometimes long (code paths that only engage above a size threshold).
pub fn size(rng: &mut Rng) -> usize {
    match rng.below(12) {
        0 => rng.range(5, 9),
        1 => rng.range(9, 24),
        _ => rng.below(5),
    }
}

fn array_expr(rng: &mut Rng, depth: usize) -> Value {
    match rng.below(8) {
        0 | 1 | 2 => {
            let n = size(rng);
            Value::Array((0..n).map(|_| if rng.chance(1, 4) { rule(rng, depth.saturating_sub(1)) } else { atom(rng) }).collect())
        }
        3 | 4 => json!({"var": var_path(rng)}),
        5 => json!({"merge": [array_expr(rng, depth.saturating_sub(1)), atom(rng)]}),
        6 => string_atom(rng),
        _ => rule(rng, depth.saturating_sub(1)),
    }
}

fn valid_arity(rng: &mut Rng, op: &str) -> usize {
    match op {
        "==" | "!=" | "===" | "!==" | "/" | "%" | "in" | "map" | "filter" | "all" | "some" | "none" | "missing_some" => 2,
        "<" | "<=" | ">" | ">=" | "substr" => 2 + rng.below(2),
        "reduce" => 3,
        "!" | "!!" | "log" => 1,
        "-" => 1 + rng.below(2),
        "var" => rng.below(3),
        "*" | "max" | "min" | "and" | "or" => 1 + rng.below(4),
        "if" | "?:" => rng.below(7),
        _ => rng.below(5),
    }
}

/// A rule expression of nesting at most roughly 2*depth.
pub fn rule(rng: &mut Rng, depth: usize) -> Value {
    if depth == 0 {
        return match rng.below(4) {
            0 => json!({"var": var_path(rng)}),
            _ => atom(rng),
        };
    }
    let class = rng.weighted(&[22, 6, 10, 3, 4, 2]);
    match class {
        0 => {
            let op = *rng.pick(EAGER_OPS);
            let n = if rng.chance(1, 12) { rng.below(6) } else { valid_arity(rng, op) };
            let mut args: Vec<Value> = (0..n).map(|_| rule(rng, depth - 1)).collect();
            if op == "substr" && n >= 2 && rng.chance(3, 4) {
                args[0] = string_atom(rng);
                args[1] = int_atom(rng);
                if n > 2 {
                    args[2] = int_atom(rng);
                }
            }
            if n == 1 && rng.chance(1, 3) {
                // unary sugar: {"op": x}
                let x = args.pop().unwrap();
                if !x.is_array() {
                    return json!({ op: x });
                }
                return json!({ op: [x] });
            }
            json!({ op: args })
        }
        1 => {
            let op = *rng.pick(DATA_OPS);
            match op {
                "var" => match rng.below(4) {
                    0 => json!({"var": var_path(rng)}),
                    1 => json!({"var": [var_path(rng), rule(rng, depth - 1)]}),
                    2 => json!({"var": [rule(rng, depth - 1)]}),
                    _ => json!({"var": []}),
                },
                "missing" => {
                    let n = rng.below(4);
                    let keys: Vec<Value> = (0..n).map(|_| var_path(rng)).collect();
                    if rng.chance(1, 3) {
                        json!({"missing": [keys]})
                    } else {
                        json!({"missing": keys})
                    }
                }
                _ => {
                    let n = rng.below(4);
                    let mut keys: Vec<Value> = (0..n).map(|_| var_path(rng)).collect();
                    if n > 0 && rng.chance(1, 3) {
                        keys.push(keys[0].clone());
                    }
                    json!({"missing_some": [if rng.chance(1, 8) { atom(rng) } else { json!(rng.below(3)) }, keys]})
                }
            }
        }
        2 => {
            let op = *rng.pick(LAZY_OPS);
            match op {
                "map" | "filter" | "all" | "some" | "none" => {
                    let body = match rng.below(5) {
                        0 => json!({"var": ""}),
                        1 => json!({">": [{"var": ""}, number_atom(rng)]}),
                        2 => json!({"log": {"var": ""}}),
                        3 => json!({"var": *rng.pick(KEYS)}),
                        _ => rule(rng, depth - 1),
                    };
                    if rng.chance(1, 12) {
                        json!({ op: [array_expr(rng, depth - 1)] })
                    } else {
                        json!({ op: [array_expr(rng, depth - 1), body] })
                    }
                }
                "reduce" => {
                    let body = match rng.below(4) {
                        0 => json!({"+": [{"var": "current"}, {"var": "accumulator"}]}),
                        1 => json!({"cat": [{"var": "accumulator"}, {"log": {"var": "current"}}]}),
                        2 => json!({"max": [{"var": "current"}, {"var": "accumulator"}]}),
                        _ => rule(rng, depth - 1),
                    };
                    json!({"reduce": [array_expr(rng, depth - 1), body, rule(rng, depth - 1)]})
                }
                _ => {
                    let n = if rng.chance(1, 12) { rng.below(7) } else { valid_arity(rng, op) };
                    let args: Vec<Value> = (0..n).map(|_| rule(rng, depth - 1)).collect();
                    json!({ op: args })
                }
            }
        }
        3 => {
            // near-miss / literal objects: must be returned as they are
            match rng.below(3) {
                0 => {
                    let k = *rng.pick(NEAR_MISS_KEYS);
                    json!({ k: [rule(rng, depth - 1)] })
                }
                1 => json!({"var": "a", "+": [1, 2]}),
                _ => data(rng, 2),
            }
        }
        4 => json!({"log": rule(rng, depth - 1)}),
        _ => atom(rng),
    }
}

pub fn int_atom(rng: &mut Rng) -> Value {
    match rng.below(12) {
        0 => json!(i64::MIN),
        1 => json!(i64::MAX),
        2 => json!(u64::MAX),
        3 => json!(i64::MIN + 1),
        4 => f(1.0),
        5 => json!(-(rng.below(5) as i64)),
        _ => json!(rng.below(6) as i64),
    }
}

/// JSON nesting depth of a value (scalars = 0, [] = 1, ...), as the text parser counts it.
pub fn nesting(v: &Value) -> usize {
    match v {
        Value::Array(a) => 1 + a.iter().map(nesting).max().unwrap_or(0),
        Value::Object(o) => 1 + o.values().map(nesting).max().unwrap_or(0),
        _ => 0,
    }
}

/// A chain of `levels` nested operations around a seed expression, staying within `max_nesting`.
pub fn deep_rule(rng: &mut Rng, levels: usize, max_nesting: usize) -> Value {
    let mut x = match rng.below(4) {
        0 => json!({"var": *rng.pick(KEYS)}),
        1 => json!({"log": 1}),
        _ => atom(rng),
    };
    let mono = if rng.chance(1, 2) { Some(rng.below(16)) } else { None };
    for _ in 0..levels {
        let pick = mono.unwrap_or_else(|| rng.below(16));
        let cand = match pick {
            0 => json!({"!": x.clone()}),
            1 => json!({"!!": [x.clone()]}),
            2 => json!({"+": [x.clone(), 1]}),
            3 => json!({"cat": [x.clone(), "a"]}),
            4 => json!({"if": [true, x.clone(), 0]}),
            5 => json!({"and": [1, x.clone()]}),
            6 => json!({"or": [0, x.clone()]}),
            7 => json!({"log": x.clone()}),
            8 => json!({"-": x.clone()}),
            9 => json!({"max": [x.clone(), 0]}),
            10 => json!({"var": ["nope", x.clone()]}),
            11 => json!({"merge": [x.clone()]}),
            12 => json!({"map": [[1], x.clone()]}),
            13 => json!({"reduce": [[1], x.clone(), 0]}),
            14 => json!({"==": [x.clone(), 1]}),
            _ => json!({"some": [[0], x.clone()]}),
        };
        if nesting(&cand) > max_nesting {
            // fall back to the one-level-per-op sugar, or stop
            let alt = if x.is_array() { json!({"!": [x.clone()]}) } else { json!({"!": x.clone()}) };
            if nesting(&alt) > max_nesting {
                break;
            }
            x = alt;
        } else {
            x = cand;
        }
    }
    x
}

/// Deeply nested plain data (arrays / objects) with a path into it.
pub fn deep_data(rng: &mut Rng, levels: usize) -> (Value, String) {
    let mut v = atom(rng);
    let mut path: Vec<String> = Vec::new();
    for _ in 0..levels {
        if rng.chance(1, 2) {
            v = json!([v]);
            path.push("0".into());
        } else {
            let k = *rng.pick(&["a", "b", "c"]);
            v = json!({ k: v });
            path.push(k.into());
        }
    }
    path.reverse();
    (v, path.join("."))
}

/// Change some leaves of a data value so that a rule reading it is likely to give another answer.
pub fn vary(rng: &mut Rng, v: &Value) -> Value {
    match v {
        Value::Object(m) => {
            let mut out = Map::new();
            for (k, x) in m {
                if rng.chance(1, 8) {
                    continue; // drop the key
                }
                out.insert(k.clone(), vary(rng, x));
            }
            if rng.chance(1, 6) {
                out.insert((*rng.pick(KEYS)).to_string(), atom(rng));
            }
            Value::Object(out)
        }
        Value::Array(a) => {
            let mut out: Vec<Value> = a.iter().map(|x| vary(rng, x)).collect();
            if rng.chance(1, 5) && !out.is_empty() {
                out.rotate_left(1);
            }
            if rng.chance(1, 6) {
                out.push(atom(rng));
            }
            Value::Array(out)
        }
        Value::Number(n) => {
            if let Some(i) = n.as_i64() {
                json!(i.wrapping_add(1 + rng.below(3) as i64))
            } else {
                number_atom(rng)
            }
        }
        Value::String(s) => {
            if rng.chance(1, 2) {
                json!(format!("{}{}", s, rng.pick(&["x", "é", "1"])))
            } else {
                string_atom(rng)
            }
        }
        Value::Bool(b) => Value::Bool(!*b),
        Value::Null => atom(rng),
    }
}

/// Operand list for an n-ary helper.
pub fn helper_list(rng: &mut Rng) -> Value {
    let n = size(rng);
    Value::Array((0..n).map(|_| atom(rng)).collect())
}

// ---------------------------------------------------------------------------------------------
// Text-level generators (E2): valid and invalid JSON *texts*.
// ---------------------------------------------------------------------------------------------

/// Render with optional insignificant whitespace / alternative spellings; still the same document.
pub fn render(rng: &mut Rng, v: &Value) -> String {
    let s = v.to_string();
    match rng.below(10) {
        0 => format!(" {} ", s),
        1 => format!("{}\n", s),
        2 => format!("\t{}\r\n", s),
        3 => serde_json::to_string_pretty(v).unwrap_or(s),
        _ => s,
    }
}

/// Turn a valid text into a (probably) invalid one.
pub fn mangle(rng: &mut Rng, s: &str) -> String {
    let bytes = s.as_bytes();
    match rng.below(18) {
        16 => {
            // a text of one or two punctuation characters (quotes, escapes, option and path markers)
            let c = *rng.pick(&['\'', '"', '\\', '-', '=', '@', '{', '[', ' ', '~', '%', '*', '/', '.', ':', 'é']);
            if rng.chance(1, 3) {
                format!(" {} ", c)
            } else if rng.chance(1, 3) {
                format!("{}{}", c, c)
            } else {
                c.to_string()
            }
        }
        17 => format!("{}{}{}", rng.pick(&["'", "@", "=", "~/", "./", "file:"]), s, rng.pick(&["'", "", "=", " "])),
        0 => String::new(),
        1 => {
            // truncate at a char boundary
            let mut cut = rng.below(s.len().max(1));
            while !s.is_char_boundary(cut) {
                cut -= 1;
            }
            s[..cut].to_string()
        }
        2 => format!("{} {}", s, s),
        3 => format!("{},", s),
        4 => format!("\u{feff}{}", s),
        5 => "NaN".to_string(),
        6 => "Infinity".to_string(),
        7 => "1e999".to_string(),
        8 => "\"\\ud800\"".to_string(),
        9 => {
            let n = 129 + rng.below(40);
            format!("{}{}", "[".repeat(n), "]".repeat(n))
        }
        10 => s.replace('"', "'"),
        11 => format!("{}}}", s),
        12 => "{\"a\":1,}".to_string(),
        13 => "\"a\u{1}b\"".to_string(),
        14 => {
            // insert a junk byte somewhere (kept valid UTF-8)
            let mut pos = rng.below(bytes.len() + 1);
            while !s.is_char_boundary(pos) {
                pos -= 1;
            }
            let mut t = s.to_string();
            t.insert(pos, *rng.pick(&['x', '}', '"', ':', '\\', '€']));
            t
        }
        _ => "tru".to_string(),
    }
}
