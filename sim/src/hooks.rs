//! Glue between the library's verification seams (`jsonlogic_rs::verif`) and whatever context the
//! calling thread is in: a simulated client thread (scheduler), an isolation-oracle process, or none.

use std::cell::{Cell, RefCell};
use std::sync::atomic::{AtomicI32, Ordering};
use std::sync::Arc;

pub trait ThreadCtx {
    fn yield_point(&self, site: &'static str);
    fn emit(&self, text: &str);
}

thread_local! {
    static CTX: RefCell<Option<Arc<dyn ThreadCtx>>> = const { RefCell::new(None) };
    static LAST_PANIC_LOC: RefCell<Option<String>> = const { RefCell::new(None) };
    static IN_OP: Cell<bool> = const { Cell::new(false) };
    static INPUT_MODIFIED: Cell<bool> = const { Cell::new(false) };
}

pub fn set_input_modified() {
    INPUT_MODIFIED.with(|f| f.set(true));
}
pub fn take_input_modified() -> bool {
    INPUT_MODIFIED.with(|f| f.replace(false))
}

/// fd on which harness-level diagnostics are written (the process's original stderr, saved before
/// fd 1 / fd 2 are redirected into capture files).
pub static DIAG_FD: AtomicI32 = AtomicI32::new(2);

pub fn diag(msg: &str) {
    let fd = DIAG_FD.load(Ordering::Relaxed);
    let mut line = String::with_capacity(msg.len() + 1);
    line.push_str(msg);
    line.push('\n');
    unsafe {
        libc::write(fd, line.as_ptr() as *const libc::c_void, line.len());
    }
}

fn yield_hook(site: &'static str) {
    // Clone the Arc out so that no RefCell borrow is held while the thread is parked.
    let ctx = CTX.with(|c| c.borrow().clone());
    if let Some(ctx) = ctx {
        ctx.yield_point(site);
    }
}

fn emit_hook(text: &str) {
    let ctx = CTX.with(|c| c.borrow().clone());
    match ctx {
        Some(ctx) => ctx.emit(text),
        None => {
            // No context: behave like the shipped code (write to the process's stdout).
            use std::io::Write;
            let out = std::io::stdout();
            let mut l = out.lock();
            let _ = l.write_all(text.as_bytes());
        }
    }
}

/// Install the library hooks and the panic hook. Call once, before any thread exists.
pub fn install() {
    jsonlogic_rs::verif::install(Some(yield_hook), Some(emit_hook));
    std::panic::set_hook(Box::new(|info| {
        let loc = info.location().map(|l| format!("{}:{}", l.file(), l.line()));
        if IN_OP.with(|f| f.get()) {
            LAST_PANIC_LOC.with(|l| *l.borrow_mut() = loc);
        } else {
            // A panic outside an operation is a bug of the harness itself: make it loud.
            let msg = if let Some(s) = info.payload().downcast_ref::<&str>() {
                s.to_string()
            } else if let Some(s) = info.payload().downcast_ref::<String>() {
                s.clone()
            } else {
                "?".into()
            };
            diag(&format!("HARNESS PANIC at {}: {}", loc.unwrap_or_default(), msg));
        }
    }));
}

pub fn set_ctx(ctx: Option<Arc<dyn ThreadCtx>>) {
    CTX.with(|c| *c.borrow_mut() = ctx);
}

pub fn set_in_op(v: bool) {
    IN_OP.with(|f| f.set(v));
}

pub fn clear_last_panic() {
    LAST_PANIC_LOC.with(|l| *l.borrow_mut() = None);
}

pub fn take_last_panic_location() -> Option<String> {
    LAST_PANIC_LOC.with(|l| l.borrow_mut().take())
}
