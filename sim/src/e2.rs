//! Engine E2: the shipped `jsonlogic` binary as a process, its system-call boundary owned by the
//! preloaded interposer (`shim/simio.c`), driven by an explicit, seeded fault script.
//!
//! One case = 1–2 process stages. For each stage the harness decides argv, the bytes behind fd 0,
//! how read(0) / write(1) / write(2) behave call by call, and the ambient; afterwards it judges
//! (stdout, exit status, trace) against the library's isolated result on the bytes the script
//! *intended* to deliver.

use serde_json::{json, Value};
use std::collections::{BTreeMap, BTreeSet};
use std::fs::File;
use std::io::Write;
use std::os::unix::io::{AsRawFd, FromRawFd};
use std::os::unix::process::ExitStatusExt;
use std::process::{Command, Stdio};
use std::time::Instant;

use crate::ambient::Ambient;
use crate::e1::Violation;
use crate::gen::{self, Corpus};
use crate::hooks;
use crate::ops::{Op, Res};
use crate::oracle::{self, Oracle};
use crate::prng::{self, Rng};
use crate::shrink::value_candidates;
use crate::Args;

const STACK_KB: usize = 2048;

#[derive(Clone, Debug, PartialEq)]
pub enum Form {
    /// data as second argument
    Arg,
    /// no second argument, data on stdin
    StdinOmitted,
    /// second argument `-`, data on stdin
    StdinDash,
}

#[derive(Clone, Debug, PartialEq)]
pub struct Act {
    pub kind: char,
    pub arg: u64,
}

fn acts_text(a: &[Act]) -> String {
    a.iter().map(|x| if x.kind == 'i' || x.kind == 'e' || x.kind == 'b' || x.kind == 'p' { x.kind.to_string() } else { format!("{}{}", x.kind, x.arg) }).collect::<Vec<_>>().join(",")
}
fn acts_parse(s: &str) -> Vec<Act> {
    s.split(',')
        .filter(|x| !x.is_empty())
        .map(|x| {
            let mut ch = x.chars();
            let k = ch.next().unwrap();
            Act { kind: k, arg: ch.as_str().parse().unwrap_or(0) }
        })
        .collect()
}

#[derive(Clone, Debug, PartialEq)]
pub struct Stage {
    pub rule_text: String,
    pub data_text: Vec<u8>,
    pub form: Form,
    pub sep: bool,
    pub read: Vec<Act>,
    pub flips: Vec<(usize, u8)>,
    pub w1: Vec<Act>,
    pub w2: Vec<Act>,
    pub ambient: Ambient,
    /// the stream ends exactly at this absolute offset (systematic truncation sweep)
    pub eof_at: Option<usize>,
    /// fd 0 and fd 1 are real pipes (pre-filled and closed / drained after exit) instead of memfds
    pub pipes: bool,
    /// surplus positional arguments after <logic> [data] (a usage error: only "ends with an exit status,
    /// prints no result" is judged)
    pub extra_args: Vec<String>,
    /// fd 1 is a terminal (the slave of a pseudo-terminal in raw mode), and so is fd 0 when the data is
    /// an argument: what the process sees when a person types the command (`isatty` is true)
    pub tty: bool,
}

#[derive(Clone, Debug)]
pub struct Case {
    pub seed: u64,
    pub profile: String,
    pub stage1: Stage,
    /// second stage: rule applied to stage-1 stdout (data_text is filled in at run time)
    pub stage2: Option<Stage>,
}

fn hex(b: &[u8]) -> String {
    b.iter().map(|x| format!("{:02x}", x)).collect()
}
fn unhex(s: &str) -> Option<Vec<u8>> {
    if s.len() % 2 != 0 {
        return None;
    }
    (0..s.len() / 2).map(|i| u8::from_str_radix(&s[2 * i..2 * i + 2], 16).ok()).collect()
}

impl Stage {
    fn to_json(&self) -> Value {
        json!({
            "rule_text": self.rule_text,
            "data_hex": hex(&self.data_text),
            "data_lossy": String::from_utf8_lossy(&self.data_text),
            "form": match self.form { Form::Arg => "arg", Form::StdinOmitted => "stdin", Form::StdinDash => "stdin-dash" },
            "sep": self.sep,
            "read": acts_text(&self.read), "flips": self.flips.iter().map(|(o, x)| json!([o, x])).collect::<Vec<_>>(),
            "w1": acts_text(&self.w1), "w2": acts_text(&self.w2),
            "ambient": self.ambient.to_json(),
            "eof_at": self.eof_at,
            "pipes": self.pipes,
            "extra_args": self.extra_args,
            "tty": self.tty,
        })
    }
    fn from_json(v: &Value) -> Option<Stage> {
        Some(Stage {
            rule_text: v.get("rule_text")?.as_str()?.to_string(),
            data_text: unhex(v.get("data_hex")?.as_str()?)?,
            form: match v.get("form")?.as_str()? {
                "arg" => Form::Arg,
                "stdin" => Form::StdinOmitted,
                _ => Form::StdinDash,
            },
            sep: v.get("sep")?.as_bool()?,
            read: acts_parse(v.get("read")?.as_str()?),
            flips: v.get("flips")?.as_array()?.iter().map(|f| Some((f.get(0)?.as_u64()? as usize, f.get(1)?.as_u64()? as u8))).collect::<Option<Vec<_>>>()?,
            w1: acts_parse(v.get("w1")?.as_str()?),
            w2: acts_parse(v.get("w2")?.as_str()?),
            ambient: v.get("ambient").and_then(Ambient::from_json).unwrap_or_default(),
            eof_at: v.get("eof_at").and_then(|e| e.as_u64()).map(|e| e as usize),
            pipes: v.get("pipes").and_then(|e| e.as_bool()).unwrap_or(false),
            extra_args: v.get("extra_args").and_then(|e| e.as_array()).map(|a| a.iter().filter_map(|x| x.as_str().map(String::from)).collect()).unwrap_or_default(),
            tty: v.get("tty").and_then(|e| e.as_bool()).unwrap_or(false),
        })
    }
}

impl Case {
    pub fn to_json(&self) -> Value {
        json!({"engine": "e2", "seed": self.seed, "profile": self.profile, "stage1": self.stage1.to_json(), "stage2": self.stage2.as_ref().map(|s| s.to_json())})
    }
    pub fn from_json(v: &Value) -> Option<Case> {
        Some(Case {
            seed: v.get("seed").and_then(|s| s.as_u64()).unwrap_or(0),
            profile: v.get("profile").and_then(|s| s.as_str()).unwrap_or("debug").to_string(),
            stage1: Stage::from_json(v.get("stage1")?)?,
            stage2: match v.get("stage2") {
                Some(s) if !s.is_null() => Some(Stage::from_json(s)?),
                _ => None,
            },
        })
    }
}

// ---------------------------------------------------------------------------------------------
// generation
// ---------------------------------------------------------------------------------------------

fn transparent_script(rng: &mut Rng, max_len: usize) -> Vec<Act> {
    let n = rng.below(max_len + 1);
    (0..n)
        .map(|_| if rng.chance(1, 3) { Act { kind: 'i', arg: 0 } } else { Act { kind: 'k', arg: *rng.pick(&[1u64, 1, 2, 3, 5, 8, 31, 32, 33]) } })
        .collect()
}

fn gen_stage(rng: &mut Rng, corpus: &Corpus, second: bool) -> Stage {
    // texts
    let (rule_v, data_v): (Value, Value) = match rng.weighted(&[35, 35, 8, 12, 10, 4, 3, 5]) {
        7 => {
            // exact lengths: a result line, a log line or a data text whose byte length sits on (or one or
            // two bytes beside) a multiple of a power of two - where buffers, chunks and pages end
            let b = *rng.pick(&[64usize, 128, 256, 512, 1024, 2048, 4096, 8192, 16384, 32768, 65536]);
            let k = *rng.pick(&[1usize, 1, 1, 2, 3]);
            let d = *rng.pick(&[-2i64, -1, 0, 0, 0, 1, 2]);
            let total = ((b * k) as i64 + d).max(3) as usize;
            // the serialised string is its content plus two quotes (no character below needs an escape)
            let content_len = total - 2;
            let mut text = String::with_capacity(content_len);
            let wide = rng.chance(1, 3);
            while text.len() < content_len {
                let left = content_len - text.len();
                if wide && left >= 3 && rng.chance(1, 2) {
                    text.push('日');
                } else {
                    text.push((b'a' + (text.len() % 26) as u8) as char);
                }
            }
            let r = match rng.below(8) {
                0 | 1 => json!({"var": ""}),
                2 => json!({"log": {"var": ""}}),
                3 => json!({"cat": [{"var": ""}]}),
                4 => json!({"if": [true, {"var": ""}, 0]}),
                // several log lines of very different sizes in one evaluation, in both orders
                5 => json!({"and": [{"log": "first"}, {"log": {"var": ""}}, {"log": "last"}]}),
                6 => json!({"and": [{"log": {"var": ""}}, {"log": "after"}]}),
                _ => json!({"map": [["a", {"var": ""}, "b", {"var": ""}], {"log": {"var": ""}}]}),
            };
            (r, Value::String(text))
        }
        5 => {
            // deep data walked / stringified by a shallow rule
            let lv = rng.range(40, 122);
            let (d, path) = gen::deep_data(rng, lv);
            let r = match rng.below(5) {
                0 => json!({"var": path}),
                1 => json!({"cat": [{"var": ""}, "x"]}),
                2 => json!({"var": ""}),
                3 => json!({"==": [{"var": ""}, {"var": ""}]}),
                _ => json!({"log": {"var": ""}}),
            };
            (r, d)
        }
        6 => {
            // large documents: bigger than any plausible internal buffer
            let n = *rng.pick(&[9_000usize, 20_000, 70_000, 140_000]);
            let d = if rng.chance(1, 2) {
                Value::Array((0..n / 6).map(|i| json!((i as i64 * 7919) % 100_000)).collect())
            } else {
                let unit = *rng.pick(&["abcdefghij", "日本語テキスト", "0123456789"]);
                Value::String(unit.repeat(n / unit.len()))
            };
            let r = match rng.below(4) {
                0 => json!({"var": ""}),
                1 => json!({"reduce": [{"var": ""}, {"+": [{"var": "current"}, {"var": "accumulator"}]}, 0]}),
                2 => json!({"cat": [{"var": ""}, "!"]}),
                _ => json!({"in": ["zzz", {"var": ""}]}),
            };
            (r, d)
        }
        0 => {
            let (r, d) = rng.pick(&corpus.cases);
            (serde_json::from_str(r).unwrap(), serde_json::from_str(d).unwrap())
        }
        1 => (gen::rule(rng, 3), gen::data(rng, 3)),
        2 => {
            let lv = rng.range(10, 60);
            (gen::deep_rule(rng, lv, 126), gen::data(rng, 2))
        }
        3 => (if rng.chance(1, 2) { json!({"var": ""}) } else { gen::atom(rng) }, gen::atom(rng)),
        _ => {
            // log-bearing rules: several stdout lines
            let items: Vec<Value> = (0..rng.range(1, 5)).map(|_| gen::atom(rng)).collect();
            (json!({"map": [items, {"log": {"var": ""}}]}), gen::data(rng, 1))
        }
    };
    let mut rule_text = gen::render(rng, &rule_v);
    if second && rng.chance(1, 3) {
        rule_text = "{\"var\":\"\"}".to_string();
    }
    let mut data_text = gen::render(rng, &data_v).into_bytes();
    if rng.chance(1, 10) {
        rule_text = gen::mangle(rng, &rule_text);
    }
    if rng.chance(1, 7) {
        data_text = gen::mangle(rng, &String::from_utf8_lossy(&data_text)).into_bytes();
    }
    if rng.chance(1, 12) {
        data_text = (*rng.pick(&["-5", "-0.0", "-1e3", "-1", "-9223372036854775808", "-0.5e-2"])).as_bytes().to_vec();
    }
    if rng.chance(1, 25) {
        rule_text = (*rng.pick(&["-1", "-2.5", "-0"])).to_string();
    }
    let mut form = match rng.weighted(&[40, 30, 30]) {
        0 => Form::Arg,
        1 => Form::StdinOmitted,
        _ => Form::StdinDash,
    };
    if second && form == Form::Arg {
        form = Form::StdinOmitted;
    }
    let mut sep = rng.chance(1, 4);
    // what argv cannot carry: NUL bytes, non-UTF-8 (std::process would refuse / clap is out of scope)
    let argv_safe = |b: &[u8]| !b.contains(&0) && std::str::from_utf8(b).is_ok();
    if !argv_safe(rule_text.as_bytes()) {
        rule_text = rule_text.replace('\0', " ");
    }
    // a single argv string is limited to 128 KiB by the kernel
    if form == Form::Arg && (!argv_safe(&data_text) || data_text == b"-" || data_text.len() > 100_000) {
        form = Form::StdinDash;
    }
    // A text beginning with '-' is handed to the positional arguments (a JSON text can only begin
    // with '-' when it is a negative number). What stays reserved for the argument parser are its own
    // flags (-h, -V, --help, --version and clusters beginning with them): anything that begins with
    // '-' but not with '-<digit>' is therefore only generated behind `--`.
    let optionish = |b: &[u8]| b.first() == Some(&b'-') && !b.get(1).map(|c| c.is_ascii_digit()).unwrap_or(false);
    if optionish(rule_text.as_bytes()) || (form == Form::Arg && optionish(&data_text)) {
        sep = true;
    }
    // faults (swarm: each kind enabled per case with its own probability)
    let mut read = Vec::new();
    let mut flips = Vec::new();
    if form == Form::Arg {
        if rng.chance(1, 2) {
            read.push(Act { kind: 'b', arg: 0 }); // stdin never delivers and never ends
        }
    } else {
        if rng.chance(2, 3) {
            read = transparent_script(rng, 14);
        }
        if rng.chance(1, 8) {
            // early EOF: the producer dies after some reads
            let at = rng.below(read.len() + 1);
            read.truncate(at);
            read.push(Act { kind: 'e', arg: 0 });
        } else if rng.chance(1, 12) {
            let at = rng.below(read.len() + 1);
            read.truncate(at);
            read.push(Act { kind: 'x', arg: 5 }); // EIO
        }
        if rng.chance(1, 8) && !data_text.is_empty() {
            for _ in 0..rng.range(1, 2) {
                flips.push((rng.below(data_text.len()), *rng.pick(&[0x01u8, 0x20, 0x80, 0xff, 0x04])));
            }
        }
        if rng.chance(1, 120) && !read.iter().any(|a| a.kind == 'e' || a.kind == 'x') {
            // a slow producer: one delivery arrives a quarter of a second late (real time)
            let at = rng.below(read.len() + 1);
            read.insert(at, Act { kind: 'd', arg: 250 });
        }
    }
    let mut w1 = if rng.chance(1, 3) { transparent_script(rng, 8) } else { Vec::new() };
    if rng.chance(1, 25) {
        let at = rng.below(w1.len() + 1);
        w1.truncate(at);
        w1.push(Act { kind: 'x', arg: *rng.pick(&[28u64, 32, 5, 11]) }); // ENOSPC, EPIPE, EIO, EAGAIN: class U
    }
    let w2 = if rng.chance(1, 6) { transparent_script(rng, 6) } else { Vec::new() };
    let ambient = Ambient::draw(rng);
    // what `a | jsonlogic r | jsonlogic r2` really hands the process: pipes, not regular files
    let pipes = data_text.len() < 100_000 && rng.chance(1, 3);
    let mut extra_args = Vec::new();
    if !second && form == Form::Arg && rng.chance(1, 25) {
        for _ in 0..rng.range(1, 2) {
            extra_args.push((*rng.pick(&["null", "{}", "", "'", "-", "extra", "é", "[1,2]", " "])).to_string());
        }
    }
    // an interactive invocation: small texts, terminal on fd 1 (and on fd 0 when nothing is read from it)
    let tty = !pipes && data_text.len() < 1500 && rule_text.len() < 600 && rng.chance(1, 6);
    Stage { rule_text, data_text, form, sep, read, flips, w1, w2, ambient, eof_at: None, pipes, extra_args, tty }
}

pub fn gen_case(seed: u64, profile: &str, corpus: &Corpus) -> Case {
    let mut rng = Rng::new(seed);
    let stage1 = gen_stage(&mut rng, corpus, false);
    let stage2 = if rng.chance(1, 4) { Some(gen_stage(&mut rng, corpus, true)) } else { None };
    Case { seed, profile: profile.to_string(), stage1, stage2 }
}

// ---------------------------------------------------------------------------------------------
// execution of one stage
// ---------------------------------------------------------------------------------------------

#[derive(Clone, Debug)]
pub enum Ev {
    Read { req: u64, ret: i64, tag: String },
    Write { fd: u8, req: u64, ret: i64, tag: String },
    Other(String),
}

#[derive(Clone, Debug)]
pub struct StageResult {
    pub stdout: Vec<u8>,
    pub stderr: Vec<u8>,
    pub code: Option<i32>,
    pub signal: Option<i32>,
    pub timed_out: bool,
    pub trace: Vec<Ev>,
    pub trace_raw: String,
}

fn parse_trace(s: &str) -> Vec<Ev> {
    let mut out = Vec::new();
    for line in s.lines() {
        let p: Vec<&str> = line.split_whitespace().collect();
        if p.is_empty() {
            continue;
        }
        match p[0] {
            "r" if p.len() >= 3 => {
                let ret = if p[2] == "BLOCK" { -2 } else { p[2].parse().unwrap_or(-1) };
                out.push(Ev::Read { req: p[1].parse().unwrap_or(0), ret, tag: p[3..].join(" ") })
            }
            "w1" | "w2" if p.len() >= 3 => out.push(Ev::Write { fd: if p[0] == "w1" { 1 } else { 2 }, req: p[1].parse().unwrap_or(0), ret: p[2].parse().unwrap_or(-1), tag: p[3..].join(" ") }),
            _ => out.push(Ev::Other(line.to_string())),
        }
    }
    out
}

pub struct Env {
    pub cli_debug: String,
    pub cli_release: String,
    pub shim: String,
}

fn memfile(name: &str, content: &[u8]) -> File {
    let fd = oracle::memfd(name);
    let mut f = unsafe { File::from_raw_fd(fd) };
    f.write_all(content).unwrap();
    unsafe { libc::lseek(fd, 0, libc::SEEK_SET) };
    f
}

/// A pseudo-terminal pair, the slave in raw mode (no output post-processing: the bytes the process
/// writes are the bytes read from the master). None if the system has no pty to give.
fn open_pty() -> Option<(File, File)> {
    unsafe {
        let m = libc::posix_openpt(libc::O_RDWR | libc::O_NOCTTY | libc::O_CLOEXEC);
        if m < 0 {
            return None;
        }
        if libc::grantpt(m) != 0 || libc::unlockpt(m) != 0 {
            libc::close(m);
            return None;
        }
        let mut name = [0 as libc::c_char; 128];
        if libc::ptsname_r(m, name.as_mut_ptr(), name.len()) != 0 {
            libc::close(m);
            return None;
        }
        let sfd = libc::open(name.as_ptr(), libc::O_RDWR | libc::O_NOCTTY | libc::O_CLOEXEC);
        if sfd < 0 {
            libc::close(m);
            return None;
        }
        let mut t: libc::termios = std::mem::zeroed();
        if libc::tcgetattr(sfd, &mut t) == 0 {
            libc::cfmakeraw(&mut t);
            libc::tcsetattr(sfd, libc::TCSANOW, &t);
        }
        Some((File::from_raw_fd(m), File::from_raw_fd(sfd)))
    }
}

pub fn budget_for(stage: &Stage, expected_out: usize) -> u64 {
    4 * (stage.data_text.len() as u64 + expected_out as u64) + (stage.read.len() + stage.w1.len() + stage.w2.len()) as u64 + 64
}

pub fn run_stage(env: &Env, profile: &str, stage: &Stage, budget: u64) -> StageResult {
    let bin = if profile == "release" { &env.cli_release } else { &env.cli_debug };
    let stdin_content: &[u8] = if stage.form == Form::Arg { b"" } else { &stage.data_text };
    let use_pipes = stage.pipes && stdin_content.len() < 400_000;
    let mut out_read_end: Option<File> = None;
    let mut tty_master: Option<File> = None;
    let mut tty_in_master: Option<File> = None;
    let ptys = if stage.tty && !use_pipes { open_pty().map(|o| (o, if stage.form == Form::Arg { open_pty() } else { None })) } else { None };
    let (fin, fout) = if let Some(((m_out, s_out), pin)) = ptys {
        tty_master = Some(m_out);
        let fin = match pin {
            Some((m_in, s_in)) => {
                tty_in_master = Some(m_in);
                s_in
            }
            None => memfile("e2-stdin", stdin_content),
        };
        (fin, s_out)
    } else if use_pipes {
        // stdin: a pipe filled with the whole content whose write end is already closed (the producer
        // has finished); stdout: a pipe large enough never to block, drained after the process exits
        let mk = |cap: usize| -> (File, File) {
            let mut fds = [0i32; 2];
            assert!(unsafe { libc::pipe2(fds.as_mut_ptr(), libc::O_CLOEXEC) } == 0);
            unsafe { libc::fcntl(fds[1], libc::F_SETPIPE_SZ, cap as libc::c_int) };
            unsafe { (File::from_raw_fd(fds[0]), File::from_raw_fd(fds[1])) }
        };
        let (in_r, mut in_w) = mk(stdin_content.len() + 8192);
        in_w.write_all(stdin_content).expect("fill stdin pipe");
        drop(in_w);
        let (out_r, out_w) = mk(1 << 20);
        out_read_end = Some(out_r);
        (in_r, out_w)
    } else {
        (memfile("e2-stdin", stdin_content), memfile("e2-stdout", b""))
    };
    let ferr = memfile("e2-stderr", b"");
    let ftrace = memfile("e2-trace", b"");
    // the trace fd must be inherited: clear CLOEXEC (memfd_create without MFD_CLOEXEC already is)
    let trace_fd = ftrace.as_raw_fd();
    let mut cmd = Command::new(bin);
    if stage.sep {
        cmd.arg("--");
    }
    cmd.arg(&stage.rule_text);
    match stage.form {
        Form::Arg => {
            cmd.arg(String::from_utf8_lossy(&stage.data_text).into_owned());
        }
        Form::StdinDash => {
            cmd.arg("-");
        }
        Form::StdinOmitted => {}
    }
    for x in &stage.extra_args {
        cmd.arg(x);
    }
    cmd.env_clear();
    for (k, v) in &stage.ambient.env {
        cmd.env(k, v);
    }
    cmd.env("LD_PRELOAD", &env.shim);
    cmd.env("SIMIO_TRACE_FD", trace_fd.to_string());
    cmd.env("SIMIO_BUDGET", budget.to_string());
    if !stage.read.is_empty() {
        cmd.env("SIMIO_READ", acts_text(&stage.read));
    }
    if !stage.flips.is_empty() {
        cmd.env("SIMIO_FLIPS", stage.flips.iter().map(|(o, x)| format!("{}:{}", o, x)).collect::<Vec<_>>().join(","));
    }
    if !stage.w1.is_empty() {
        cmd.env("SIMIO_W1", acts_text(&stage.w1));
    }
    if let Some(n) = stage.eof_at {
        cmd.env("SIMIO_EOF_AT", n.to_string());
    }
    if !stage.w2.is_empty() {
        cmd.env("SIMIO_W2", acts_text(&stage.w2));
    }
    if stage.ambient.clock_offset_s != 0 {
        cmd.env("SIMIO_CLOCK_OFFSET", stage.ambient.clock_offset_s.to_string());
    }
    if stage.ambient.clock_step_s != 0 {
        cmd.env("SIMIO_CLOCK_STEP", stage.ambient.clock_step_s.to_string());
    }
    if let Some(s) = stage.ambient.rand_seed {
        cmd.env("SIMIO_RAND_SEED", format!("{:x}", s));
    }
    if let Some(d) = &stage.ambient.cwd {
        cmd.current_dir(d);
    }
    cmd.stdin(Stdio::from(fin.try_clone().unwrap()));
    cmd.stdout(Stdio::from(fout.try_clone().unwrap()));
    cmd.stderr(Stdio::from(ferr.try_clone().unwrap()));
    let mut child = cmd.spawn().expect("spawn jsonlogic");
    // a terminal's buffer is small: drain the master while the process runs
    let tty_reader = tty_master.take().map(|mut m| {
        std::thread::spawn(move || {
            use std::io::Read;
            let mut buf = Vec::new();
            let mut chunk = [0u8; 4096];
            loop {
                match m.read(&mut chunk) {
                    Ok(0) => break,
                    Ok(n) => buf.extend_from_slice(&chunk[..n]),
                    Err(e) if e.kind() == std::io::ErrorKind::Interrupted => continue,
                    Err(_) => break, // EIO: every slave descriptor is closed
                }
            }
            buf
        })
    });
    // wall-clock backstop (a real clock, used only to turn a CPU-bound hang into an answer)
    let pid = child.id() as i32;
    let pidfd = unsafe { libc::syscall(libc::SYS_pidfd_open, pid, 0) } as i32;
    let mut timed_out = false;
    if pidfd >= 0 {
        let mut pfd = libc::pollfd { fd: pidfd, events: libc::POLLIN, revents: 0 };
        loop {
            let r = unsafe { libc::poll(&mut pfd, 1, 6_000) };
            if r == 0 {
                timed_out = true;
                let _ = child.kill();
            }
            if r >= 0 {
                break;
            }
        }
        unsafe { libc::close(pidfd) };
    }
    let status = child.wait().expect("wait");
    let stdout = if let Some(h) = tty_reader {
        drop(cmd); // the Command and `fout` hold slave descriptors: the master reads EIO once all are closed
        drop(fout);
        drop(tty_in_master.take());
        h.join().unwrap_or_default()
    } else { match out_read_end {
        Some(mut r) => {
            use std::io::Read;
            drop(cmd); // the Command holds duplicates of the write end
            let wfd = fout.as_raw_fd();
            let _ = wfd;
            drop(fout);
            let mut buf = Vec::new();
            let _ = r.read_to_end(&mut buf);
            buf
        }
        None => oracle::read_fd_all(fout.as_raw_fd()),
    } };
    let stderr = oracle::read_fd_all(ferr.as_raw_fd());
    let trace_raw = String::from_utf8_lossy(&oracle::read_fd_all(trace_fd)).into_owned();
    StageResult { stdout, stderr, code: status.code(), signal: status.signal(), timed_out, trace: parse_trace(&trace_raw), trace_raw }
}

// ---------------------------------------------------------------------------------------------
// oracle and judging
// ---------------------------------------------------------------------------------------------

#[derive(Clone, Debug)]
pub enum Expect {
    /// exit 0, stdout exactly these bytes
    Success { stdout: String },
    /// exit != 0; stdout is a prefix of `log_prefix` and contains no further line
    Failure { log_prefix: String, why: String },
    /// the library itself panics / crashes on this input (C01, input-only); CLI outcome not judged for C18
    LibraryBroken { how: String },
    /// over the oracle's step budget: not judged
    Skip,
}

/// Bytes the script intends the process to receive on stdin, or None if the script makes the read fail.
pub fn intended_bytes(stage: &Stage, res: Option<&StageResult>) -> Option<Vec<u8>> {
    let mut bytes = stage.data_text.clone();
    for (off, x) in &stage.flips {
        if *off < bytes.len() {
            bytes[*off] ^= *x;
        }
    }
    if let Some(n) = stage.eof_at {
        bytes.truncate(n);
    }
    if stage.read.iter().any(|a| a.kind == 'x') {
        // the error fires only if the process gets that far; if it reached EOF earlier the script's
        // tail never ran. Decide from the trace when we have one.
        if let Some(r) = res {
            let fired = r.trace.iter().any(|e| matches!(e, Ev::Read { ret: -1, tag, .. } if tag.starts_with("errno=")));
            if fired {
                return None;
            }
        } else {
            return None;
        }
    }
    if stage.read.iter().any(|a| a.kind == 'e') {
        if let Some(r) = res {
            let mut consumed = 0usize;
            for e in &r.trace {
                if let Ev::Read { ret, tag, .. } = e {
                    if tag == "early-eof" {
                        bytes.truncate(consumed);
                        break;
                    }
                    if *ret > 0 {
                        consumed += *ret as usize;
                    }
                }
            }
        }
    }
    Some(bytes)
}

pub fn expectation(rule_text: &str, data: Option<&[u8]>, oracle: &mut Oracle) -> (Expect, Option<Op>) {
    let rule: Value = match serde_json::from_str(rule_text) {
        Ok(v) => v,
        Err(e) => return (Expect::Failure { log_prefix: String::new(), why: format!("rule text is not JSON: {}", e) }, None),
    };
    let data = match data {
        Some(d) => d,
        None => return (Expect::Failure { log_prefix: String::new(), why: "reading stdin failed".into() }, None),
    };
    let data_str = match std::str::from_utf8(data) {
        Ok(s) => s,
        Err(_) => return (Expect::Failure { log_prefix: String::new(), why: "data is not UTF-8".into() }, None),
    };
    let data_v: Value = match serde_json::from_str(data_str) {
        Ok(v) => v,
        Err(e) => return (Expect::Failure { log_prefix: String::new(), why: format!("data text is not JSON: {}", e) }, None),
    };
    // The oracle is given the texts exactly as the command received them: re-serialising the parsed
    // values first would parse some doubles twice, and serde_json's default float parser is not
    // exactly round-tripping (1.7976931348623157e308 drifts by an ulp per pass).
    let _ = (&rule, &data_v);
    let op = Op::apply(rule_text, data_str, false);
    let iso = oracle.query(&op, STACK_KB);
    let e = match &iso.res {
        Res::Ok(text) => Expect::Success { stdout: format!("{}{}\n", iso.out(), text) },
        Res::Err(msg) => Expect::Failure { log_prefix: iso.out(), why: format!("evaluation fails: {}", msg) },
        Res::Panic(m) => Expect::LibraryBroken { how: format!("panic: {}", m) },
        Res::Crash(m) if m.starts_with("over-budget") => Expect::Skip,
        Res::Crash(m) => Expect::LibraryBroken { how: m.clone() },
    };
    (e, Some(op))
}

fn viol(property: &str, class: &str, stage_no: usize, op: Option<Op>, expected: String, got: String, needs: &str) -> Violation {
    Violation { property: property.into(), class: class.into(), thread: stage_no, op_idx: 0, op, expected, got, needs: needs.into() }
}

fn lossy(b: &[u8]) -> String {
    let s = String::from_utf8_lossy(b);
    if s.len() > 600 {
        let mut cut = 600;
        while !s.is_char_boundary(cut) {
            cut -= 1;
        }
        format!("{}…", &s[..cut])
    } else {
        s.into_owned()
    }
}

/// Whether the stage carries a fault whose effect the properties do not constrain (class U).
pub fn unconstrained(stage: &Stage, res: &StageResult) -> bool {
    let fired = |fd: u8| res.trace.iter().any(|e| matches!(e, Ev::Write { fd: f, ret: -1, tag, .. } if *f == fd && tag.starts_with("errno=")));
    (stage.w1.iter().any(|a| a.kind == 'x') && fired(1)) || (stage.w2.iter().any(|a| a.kind == 'x') && fired(2))
}

pub fn has_faults(stage: &Stage) -> bool {
    stage.eof_at.is_some() || !stage.read.is_empty() || !stage.flips.is_empty() || !stage.w1.is_empty() || !stage.w2.is_empty() || !stage.ambient.is_default()
}

pub fn judge_stage(stage_no: usize, stage: &Stage, res: &StageResult, expect: &Expect, op: &Option<Op>, budget: u64) -> Vec<Violation> {
    let mut v = Vec::new();
    let needs = if has_faults(stage) { "fault-or-delivery-schedule" } else { "input-only" };
    let describe = format!("exit={:?} signal={:?} stdout={:?} stderr={:?}", res.code, res.signal, lossy(&res.stdout), lossy(&res.stderr));
    if unconstrained(stage, res) {
        return v; // output device failed: tallied by the caller, not judged
    }
    // ---- C01: the process ends with an exit status, no panic, no hang
    let stderr_s = String::from_utf8_lossy(&res.stderr);
    if res.timed_out {
        v.push(viol("C01", "cli-hang", stage_no, op.clone(), "terminates".into(), "no exit within the 6 s backstop".into(), needs));
    } else if res.code == Some(97) {
        v.push(viol("C01", "cli-hang", stage_no, op.clone(), format!("at most {} intercepted system calls", budget), format!("step budget exceeded; trace tail: {}", tail(&res.trace_raw)), needs));
    } else if res.code == Some(98) {
        v.push(viol("C01", "cli-hang", stage_no, op.clone(), "finishes without reading stdin (data was given as argument; stdin never delivers)".into(), "blocked forever in read(0)".into(), needs));
        v.push(viol("C18", "reads-stdin-although-data-was-an-argument", stage_no, op.clone(), "no read(0)".into(), "read(0) issued; with an idle producer the command hangs".into(), needs));
        return v;
    } else if let Some(sig) = res.signal {
        v.push(viol("C01", "cli-killed-by-signal", stage_no, op.clone(), "exit status".into(), format!("signal {} ; {}", sig, describe), needs));
    } else if res.code == Some(101) || stderr_s.contains("panicked at") {
        if !matches!(expect, Expect::LibraryBroken { .. }) {
            v.push(viol("C01", "cli-panic", stage_no, op.clone(), "exit 0 or 1 without panic".into(), describe.clone(), needs));
        }
    }
    if let Expect::LibraryBroken { how } = expect {
        v.push(viol("C01", "panic", stage_no, op.clone(), "Ok(..) or Err(..)".into(), how.clone(), "input-only"));
        return v;
    }
    if matches!(expect, Expect::Skip) || res.timed_out || res.code == Some(97) {
        return v;
    }
    // ---- C18
    match expect {
        Expect::Success { stdout } => {
            if res.code != Some(0) || res.stdout != stdout.as_bytes() {
                v.push(viol("C18", "success-output-differs-from-library", stage_no, op.clone(), format!("exit=0 stdout={:?}", stdout), describe.clone(), needs));
            }
        }
        Expect::Failure { log_prefix, why } => {
            let out = String::from_utf8_lossy(&res.stdout).into_owned();
            if res.code == Some(0) || res.signal.is_some() && false {
                v.push(viol("C18", "failure-reported-as-success", stage_no, op.clone(), format!("exit != 0 because {}", why), describe.clone(), needs));
            } else if res.code != Some(0) {
                // no result line: stdout may hold only (a prefix of) the lines log wrote before the failure
                if !log_prefix.starts_with(&out) {
                    v.push(viol("C18", "output-on-failure", stage_no, op.clone(), format!("stdout a prefix of {:?} ({})", log_prefix, why), describe.clone(), needs));
                }
            }
        }
        _ => {}
    }
    // argument form must not touch stdin at all
    if stage.form == Form::Arg && res.trace.iter().any(|e| matches!(e, Ev::Read { .. })) {
        v.push(viol("C18", "reads-stdin-although-data-was-an-argument", stage_no, op.clone(), "no read(0)".into(), format!("trace: {}", tail(&res.trace_raw)), needs));
    }
    // ---- C17 (process level): once the input is complete, evaluation touches nothing but fd 1 / fd 2
    if stage.form != Form::Arg {
        if let Some(pos) = res.trace.iter().position(|e| matches!(e, Ev::Read { ret: 0, .. })) {
            for e in &res.trace[pos + 1..] {
                if let Ev::Other(what) = e {
                    // reading a clock, randomness, a variable or a file is not an effect (dependence on them
                    // is what the ambient faults test); writing files, sockets, processes, the environment,
                    // the working directory or signal handlers is
                    if !crate::e1::is_process_effect(what) {
                        continue;
                    }
                    v.push(viol("C17", "evaluation-has-a-side-effect-on-the-process", stage_no, op.clone(), "after stdin is complete: output on fd 1 / fd 2 and nothing that outlasts or leaves the process".into(), what.clone(), needs));
                    break;
                }
            }
        }
    }
    v
}

fn tail(s: &str) -> String {
    let lines: Vec<&str> = s.lines().collect();
    let from = lines.len().saturating_sub(8);
    lines[from..].join(" | ")
}

// ---------------------------------------------------------------------------------------------
// one case end to end
// ---------------------------------------------------------------------------------------------

#[derive(Default, Clone, Debug)]
pub struct CaseStats {
    pub stages: u64,
    pub syscalls: u64,
    pub fired: BTreeMap<String, u64>,
    pub outcome: BTreeMap<String, u64>,
    pub probes: BTreeMap<String, u64>,
    pub unconstrained: u64,
    pub trace_hash: u64,
    /// set when the violation was found only after setting this discovered environment variable
    pub env_variant: Option<(String, String)>,
}

fn bump(m: &mut BTreeMap<String, u64>, k: &str, by: u64) {
    *m.entry(k.to_string()).or_insert(0) += by;
}

fn tally(stage: &Stage, res: &StageResult, expect: &Expect, st: &mut CaseStats) {
    st.stages += 1;
    st.syscalls += res.trace.len() as u64;
    let mut h = prng::Hasher::new();
    h.u64(st.trace_hash);
    // A panic message carries the thread id, so the sizes of stderr writes are not a function of the
    // case; everything else in the trace is.
    for line in res.trace_raw.lines() {
        if line.starts_with("w2 ") {
            h.str("w2");
            h.str(line.split_whitespace().nth(3).unwrap_or(""));
        } else {
            h.str(line);
        }
    }
    h.bytes(&res.stdout);
    h.u64(res.code.unwrap_or(-1) as u64);
    st.trace_hash = h.0;
    let mut last_read_pos_bytes = 0usize;
    for e in &res.trace {
        match e {
            Ev::Read { ret, tag, .. } => {
                if tag == "EINTR" {
                    bump(&mut st.fired, "read-EINTR", 1);
                    if last_read_pos_bytes + 1 == stage.data_text.len() {
                        bump(&mut st.probes, "EINTR-before-the-last-byte", 1);
                    }
                    if last_read_pos_bytes == stage.data_text.len() {
                        bump(&mut st.probes, "EINTR-before-EOF", 1);
                    }
                } else if tag == "short" {
                    bump(&mut st.fired, "read-short", 1);
                    if *ret > 0 {
                        let end = last_read_pos_bytes + *ret as usize;
                        if end < stage.data_text.len() && (stage.data_text[end] & 0xC0) == 0x80 {
                            bump(&mut st.probes, "read-split-inside-a-multibyte-character", 1);
                        }
                    }
                } else if tag == "early-eof" {
                    bump(&mut st.fired, "read-early-EOF", 1);
                    if last_read_pos_bytes > 0 && last_read_pos_bytes < stage.data_text.len() {
                        bump(&mut st.probes, "early-EOF-in-mid-document", 1);
                    }
                } else if tag.starts_with("errno=") {
                    bump(&mut st.fired, "read-EIO", 1);
                } else if *ret == -2 {
                    bump(&mut st.fired, "stdin-never-delivers-hit", 1);
                }
                if *ret > 0 {
                    last_read_pos_bytes += *ret as usize;
                }
            }
            Ev::Write { fd, tag, .. } => {
                if tag == "EINTR" {
                    bump(&mut st.fired, &format!("write{}-EINTR", fd), 1);
                } else if tag == "short" {
                    bump(&mut st.fired, &format!("write{}-short", fd), 1);
                } else if tag.starts_with("errno=") {
                    bump(&mut st.fired, &format!("write{}-error(unjudged)", fd), 1);
                }
            }
            Ev::Other(l) => {
                if l.starts_with("d ") {
                    bump(&mut st.fired, "stdin-delivery-stalls-250ms", 1);
                }
            }
        }
    }
    if !stage.flips.is_empty() && stage.form != Form::Arg {
        bump(&mut st.fired, "stdin-byte-flip", stage.flips.len() as u64);
        if let Some(b) = intended_bytes(stage, Some(res)) {
            if std::str::from_utf8(&b).is_err() {
                bump(&mut st.probes, "flip-produced-invalid-UTF-8", 1);
            }
        }
    }
    if stage.form == Form::Arg && stage.read.iter().any(|a| a.kind == 'b') {
        bump(&mut st.fired, "stdin-never-delivers-armed", 1);
    }
    if !stage.ambient.is_default() {
        bump(&mut st.fired, "ambient-perturbed", 1);
    }
    if stage.pipes {
        bump(&mut st.probes, "stdin-and-stdout-are-real-pipes", 1);
    }
    if stage.tty {
        bump(&mut st.probes, "stdout-is-a-terminal", 1);
        if stage.form == Form::Arg {
            bump(&mut st.probes, "stdin-is-an-idle-terminal", 1);
        }
    }
    if !stage.extra_args.is_empty() {
        bump(&mut st.probes, "surplus-positional-arguments", 1);
    }
    let k = match expect {
        Expect::Success { .. } => "expected-success",
        Expect::Failure { .. } => "expected-failure",
        Expect::LibraryBroken { .. } => "library-broken",
        Expect::Skip => "skipped-over-budget",
    };
    bump(&mut st.outcome, k, 1);
    bump(&mut st.outcome, &format!("exit-{}", res.code.map(|c| c.to_string()).unwrap_or_else(|| format!("signal-{}", res.signal.unwrap_or(0)))), 1);
    if unconstrained(stage, res) {
        st.unconstrained += 1;
    }
}

pub fn run_case(env: &Env, case: &Case, oracle: &mut Oracle) -> (Vec<Violation>, CaseStats) {
    let mut st = CaseStats::default();
    let mut v = Vec::new();
    // stage 1: the expectation may depend on what the trace says was delivered (early EOF position)
    let s1 = &case.stage1;
    let pre = match s1.form {
        Form::Arg => expectation(&s1.rule_text, Some(&s1.data_text), oracle),
        _ => expectation(&s1.rule_text, intended_bytes(s1, None).as_deref().or(Some(&s1.data_text)), oracle),
    };
    let exp_len = match &pre.0 {
        Expect::Success { stdout } => stdout.len(),
        Expect::Failure { log_prefix, .. } => log_prefix.len() + 2048,
        _ => 2048,
    };
    let budget = budget_for(s1, exp_len + 2048);
    if matches!(pre.0, Expect::Skip) {
        // the isolated library evaluation is over its step budget: an expensive workload, not judged
        bump(&mut st.outcome, "skipped-over-budget", 1);
        return (v, st);
    }
    let r1 = run_stage(env, &case.profile, s1, budget);
    let (e1, op1) = if !s1.extra_args.is_empty() {
        (Expect::Failure { log_prefix: String::new(), why: "surplus positional argument (usage error)".into() }, None)
    } else {
        match s1.form {
            Form::Arg => pre,
            _ => expectation(&s1.rule_text, intended_bytes(s1, Some(&r1)).as_deref(), oracle),
        }
    };
    tally(s1, &r1, &e1, &mut st);
    v.extend(judge_stage(1, s1, &r1, &e1, &op1, budget));
    // environment variables the process asked for that the generator does not know: set them and run again
    if v.is_empty() && !unconstrained(s1, &r1) {
        let mut names: Vec<String> = Vec::new();
        for e in &r1.trace {
            if let Ev::Other(w) = e {
                if let Some(n) = w.strip_prefix("getenv ") {
                    let known = n.starts_with("RUST_") || n.starts_with("SIMIO_") || n.starts_with("LD_") || n.starts_with("MALLOC_") || n.starts_with("GLIBC_") || n.starts_with("LC_") || n == "LANG" || n == "LANGUAGE" || n == "TZ" || n == "TZDIR" || n == "NLSPATH"
                        // read by the argument parser when it formats a usage error for the terminal
                        || n == "TERM" || n == "COLUMNS" || n == "LINES" || n == "NO_COLOR" || n == "CLICOLOR" || n == "CLICOLOR_FORCE";
                    if !known && !names.iter().any(|x| x == n) && !s1.ambient.env.iter().any(|(k, _)| k == n) && names.len() < 3 {
                        names.push(n.to_string());
                    }
                }
            }
        }
        for n in names {
            for val in ["1", "strict"] {
                let mut s1b = s1.clone();
                s1b.ambient.env.push((n.clone(), val.to_string()));
                let rb = run_stage(env, &case.profile, &s1b, budget);
                bump(&mut st.fired, "ambient-env-var-discovered-by-getenv", 1);
                let (eb, opb) = if !s1b.extra_args.is_empty() {
                    (Expect::Failure { log_prefix: String::new(), why: "surplus positional argument (usage error)".into() }, None)
                } else {
                    match s1b.form {
                        Form::Arg => expectation(&s1b.rule_text, Some(&s1b.data_text), oracle),
                        _ => expectation(&s1b.rule_text, intended_bytes(&s1b, Some(&rb)).as_deref(), oracle),
                    }
                };
                let vb = judge_stage(1, &s1b, &rb, &eb, &opb, budget);
                if !vb.is_empty() {
                    st.env_variant = Some((n.clone(), val.to_string()));
                    v.extend(vb);
                    return (v, st);
                }
            }
        }
    }
    // stage 2: fed with whatever stage 1 wrote to stdout, when stage 1 met its expectation of success
    if let (Some(s2t), Expect::Success { stdout }) = (&case.stage2, &e1) {
        if v.is_empty() && !unconstrained(s1, &r1) && r1.stdout == stdout.as_bytes() {
            let mut s2 = s2t.clone();
            s2.data_text = r1.stdout.clone();
            s2.flips.clear();
            let pre2 = expectation(&s2.rule_text, intended_bytes(&s2, None).as_deref().or(Some(&s2.data_text)), oracle);
            let exp_len2 = match &pre2.0 {
                Expect::Success { stdout } => stdout.len(),
                _ => 2048,
            };
            let budget2 = budget_for(&s2, exp_len2 + 2048);
            if matches!(pre2.0, Expect::Skip) {
                return (v, st);
            }
            let r2 = run_stage(env, &case.profile, &s2, budget2);
            let (e2, op2) = expectation(&s2.rule_text, intended_bytes(&s2, Some(&r2)).as_deref(), oracle);
            tally(&s2, &r2, &e2, &mut st);
            bump(&mut st.probes, "two-stage-pipelines", 1);
            if stdout.lines().count() == 1 {
                bump(&mut st.probes, "two-stage-pipelines-single-document", 1);
            }
            v.extend(judge_stage(2, &s2, &r2, &e2, &op2, budget2));
        }
    }
    (v, st)
}

// ---------------------------------------------------------------------------------------------
// systematic sweeps (thorough tier): every truncation point, every single-EINTR / single-EIO position,
// byte-by-byte delivery in both directions — for one sampled case
// ---------------------------------------------------------------------------------------------

pub fn sweep_case(env: &Env, case: &Case, oracle: &mut Oracle) -> (Vec<(Case, Violation)>, u64, CaseStats) {
    let mut out = Vec::new();
    let mut points = 0u64;
    let mut stats = CaseStats::default();
    let mut base = case.stage1.clone();
    if base.form == Form::Arg {
        base.form = Form::StdinDash;
    }
    base.read.clear();
    base.flips.clear();
    base.w1.clear();
    base.w2.clear();
    base.ambient = Ambient::default();
    base.eof_at = None;
    base.pipes = false;
    base.tty = false;
    base.extra_args.clear();
    let len = base.data_text.len();
    let mut variants: Vec<Stage> = Vec::new();
    // the producer dies after exactly p bytes, for every p
    let step = (len / 400).max(1);
    let mut p = 0;
    while p <= len {
        let mut s = base.clone();
        s.eof_at = Some(p);
        variants.push(s);
        p += step;
    }
    // one EINTR / one EIO at the j-th read, for every j the process can reach (32-byte probe + doubling)
    let reads = 4 + len / 24;
    for j in 0..reads.min(64) {
        for kind in ['i', 'x'] {
            let mut s = base.clone();
            s.read = (0..j).map(|_| Act { kind: 'p', arg: 0 }).collect();
            s.read.push(Act { kind, arg: if kind == 'x' { 5 } else { 0 } });
            variants.push(s);
        }
    }
    // one byte per read; one byte per write
    let mut s = base.clone();
    s.read = (0..(len + 4).min(4000)).map(|_| Act { kind: 'k', arg: 1 }).collect();
    variants.push(s);
    let mut s = base.clone();
    s.w1 = (0..4000).map(|_| Act { kind: 'k', arg: 1 }).collect();
    s.w2 = (0..2000).map(|_| Act { kind: 'k', arg: 1 }).collect();
    variants.push(s);
    // EINTR before every write
    let mut s = base.clone();
    s.w1 = (0..64).flat_map(|_| [Act { kind: 'i', arg: 0 }, Act { kind: 'p', arg: 0 }]).collect();
    variants.push(s);
    for st in variants {
        let c = Case { seed: case.seed, profile: case.profile.clone(), stage1: st, stage2: None };
        let (v, cs) = run_case(env, &c, oracle);
        points += 1;
        stats.stages += cs.stages;
        stats.syscalls += cs.syscalls;
        for (k, n) in &cs.fired {
            bump(&mut stats.fired, k, *n);
        }
        for (k, n) in &cs.probes {
            bump(&mut stats.probes, k, *n);
        }
        for x in v {
            out.push((c.clone(), x));
        }
        if out.len() > 4 {
            break;
        }
    }
    (out, points, stats)
}

// ---------------------------------------------------------------------------------------------
// minimisation
// ---------------------------------------------------------------------------------------------

fn still_fails(env: &Env, case: &Case, target: &Violation, oracle: &mut Oracle, execs: &mut usize) -> Option<Violation> {
    *execs += 1;
    let (v, _) = run_case(env, case, oracle);
    v.into_iter().find(|x| x.property == target.property && x.class == target.class && x.thread == target.thread)
}

fn text_candidates(s: &[u8]) -> Vec<Vec<u8>> {
    let mut out = Vec::new();
    if let Ok(text) = std::str::from_utf8(s) {
        if let Ok(v) = serde_json::from_str::<Value>(text) {
            for c in value_candidates(&v).into_iter().take(40) {
                let t = c.to_string().into_bytes();
                if t.len() < s.len() {
                    out.push(t);
                }
            }
            let canon = v.to_string().into_bytes();
            if canon.len() < s.len() {
                out.push(canon);
            }
            return out;
        }
    }
    // not JSON: delete chunks
    let n = s.len();
    let mut chunk = n / 2;
    while chunk >= 1 {
        let mut i = 0;
        while i + chunk <= n {
            let mut t = s[..i].to_vec();
            t.extend_from_slice(&s[i + chunk..]);
            out.push(t);
            i += chunk;
        }
        if out.len() > 60 {
            break;
        }
        chunk /= 2;
    }
    out
}

pub fn shrink_case(env: &Env, case: &Case, target: &Violation, oracle: &mut Oracle, budget: usize) -> (Case, Violation, usize) {
    let mut best = case.clone();
    let mut best_v = target.clone();
    let mut execs = 0usize;
    let deadline = Instant::now() + std::time::Duration::from_secs(20);
    macro_rules! attempt {
        ($cand:expr) => {{
            let c: Case = $cand;
            if Instant::now() > deadline {
                execs = budget;
            }
            if execs < budget && c.to_json() != best.to_json() {
                if let Some(vv) = still_fails(env, &c, &best_v, oracle, &mut execs) {
                    best = c;
                    best_v = vv;
                    true
                } else {
                    false
                }
            } else {
                false
            }
        }};
    }
    if target.thread == 1 && best.stage2.is_some() {
        let mut c = best.clone();
        c.stage2 = None;
        attempt!(c);
    }
    let which = |c: &mut Case, stage_no: usize| -> *mut Stage {
        if stage_no == 2 {
            c.stage2.as_mut().unwrap() as *mut Stage
        } else {
            &mut c.stage1 as *mut Stage
        }
    };
    let stages: Vec<usize> = if best.stage2.is_some() { vec![1, 2] } else { vec![1] };
    for sn in stages {
        // ambient, separators, scripts
        let simple: Vec<Box<dyn Fn(&mut Stage)>> = vec![
            Box::new(|s| s.ambient = Ambient::default()),
            Box::new(|s| s.w2.clear()),
            Box::new(|s| s.w1.clear()),
            Box::new(|s| s.flips.clear()),
            Box::new(|s| s.read.clear()),
            Box::new(|s| s.sep = false),
        ];
        for f in simple {
            let mut c = best.clone();
            let p = which(&mut c, sn);
            unsafe { f(&mut *p) };
            attempt!(c);
        }
        // script entries one by one
        for field in 0..3 {
            let mut i = 0;
            loop {
                let mut c = best.clone();
                let p = which(&mut c, sn);
                let s = unsafe { &mut *p };
                let list = match field {
                    0 => &mut s.read,
                    1 => &mut s.w1,
                    _ => &mut s.w2,
                };
                if i >= list.len() {
                    break;
                }
                list.remove(i);
                if !attempt!(c) {
                    i += 1;
                }
            }
        }
        // flips one by one
        let mut i = 0;
        loop {
            let mut c = best.clone();
            let p = which(&mut c, sn);
            let s = unsafe { &mut *p };
            if i >= s.flips.len() {
                break;
            }
            s.flips.remove(i);
            if !attempt!(c) {
                i += 1;
            }
        }
        // texts
        let mut changed = true;
        while changed && execs < budget {
            changed = false;
            let cur = if sn == 2 { best.stage2.clone().unwrap() } else { best.stage1.clone() };
            for cand in text_candidates(cur.rule_text.as_bytes()) {
                if let Ok(t) = String::from_utf8(cand) {
                    let mut c = best.clone();
                    let p = which(&mut c, sn);
                    unsafe { (*p).rule_text = t };
                    if attempt!(c) {
                        changed = true;
                        break;
                    }
                }
            }
            if changed || sn == 2 {
                continue;
            }
            for cand in text_candidates(&cur.data_text) {
                let mut c = best.clone();
                let p = which(&mut c, sn);
                unsafe {
                    if (*p).form == Form::Arg && (cand.contains(&0) || cand == b"-" || std::str::from_utf8(&cand).is_err()) {
                        continue;
                    }
                    // flips address absolute offsets: keep them inside the text
                    let len = cand.len();
                    (*p).flips.retain(|(o, _)| *o < len);
                    (*p).data_text = cand;
                }
                if attempt!(c) {
                    changed = true;
                    break;
                }
            }
        }
    }
    (best, best_v, execs)
}

// ---------------------------------------------------------------------------------------------
// worker entry points
// ---------------------------------------------------------------------------------------------

fn env_from(a: &Args) -> Env {
    Env { cli_debug: a.str("cli-debug", "/verif/build/target-cli/debug/jsonlogic"), cli_release: a.str("cli-release", "/verif/build/target-cli/release/jsonlogic"), shim: a.str("shim", "/verif/build/libsimio.so") }
}

pub fn main(a: &Args) -> i32 {
    let seed = a.u64("seed", 1);
    let tier = a.str("tier", "quick");
    let worker = a.u64("worker", 0);
    let workers = a.u64("workers", 1).max(1);
    let seconds = a.f64("seconds", 10.0);
    let max_runs = a.u64("max-runs", u64::MAX);
    let first = a.u64("first-run", 0);
    let out_path = a.str("out", "/dev/stdout");
    let replay_dir = a.str("replay-dir", ".");
    let profiles: Vec<String> = a.str("profiles", "debug").split(',').map(String::from).collect();
    let det_every = a.u64("determinism-every", 0);
    let max_shrunk = a.u64("max-shrunk", 3);
    let max_violations = a.u64("max-violations", 6) as usize;
    let sweep_every = a.u64("sweep-every", 0);
    let mut sweeps = 0u64;
    let mut sweep_points = 0u64;
    let started = Instant::now();
    let env = env_from(a);

    hooks::install();
    let mut oracle = Oracle::start();
    let corpus = Corpus::load();

    let mut runs = 0u64;
    let mut stats = CaseStats::default();
    let mut forms: BTreeMap<String, u64> = BTreeMap::new();
    let mut nontrivial: BTreeSet<u64> = BTreeSet::new();
    let mut violations: Vec<Value> = Vec::new();
    let mut seen: BTreeSet<String> = BTreeSet::new();
    let mut harness_errors: Vec<String> = Vec::new();
    let mut samples: Vec<Value> = Vec::new();
    let mut det_checked = 0u64;
    let mut det_mismatch = 0u64;
    let mut shrunk = 0u64;
    let dump_hashes = a.has("dump-hashes");
    let mut hashes: BTreeMap<String, String> = BTreeMap::new();

    let mut i = first + worker;
    while runs < max_runs && (started.elapsed().as_secs_f64() < seconds || runs == 0) && violations.len() < max_violations {
        // a hang costs seconds per occurrence: one is enough to report
        if violations.iter().any(|v| v.get("class").and_then(|c| c.as_str()) == Some("cli-hang")) {
            break;
        }
        let case_seed = prng::mix(seed, &[crate::tier_id(&tier), 2, i]);
        let mut prof_rng = Rng::new(prng::mix(case_seed, &[0x9f0f]));
        let profile = profiles[prof_rng.below(profiles.len())].clone();
        let case = gen_case(case_seed, &profile, &corpus);
        let (mut found_all, st) = {
            let (f, st) = run_case(&env, &case, &mut oracle);
            (f.into_iter().map(|v| (case.clone(), v)).collect::<Vec<_>>(), st)
        };
        if sweep_every > 0 && runs % sweep_every == 0 && case.stage1.data_text.len() <= 1500 && std::str::from_utf8(&case.stage1.data_text).is_ok() {
            let (more, points, cs) = sweep_case(&env, &case, &mut oracle);
            sweeps += 1;
            sweep_points += points;
            stats.stages += cs.stages;
            stats.syscalls += cs.syscalls;
            for (k, n) in &cs.fired {
                bump(&mut stats.fired, k, *n);
            }
            for (k, n) in &cs.probes {
                bump(&mut stats.probes, k, *n);
            }
            found_all.extend(more);
        }
        if det_every > 0 && runs % det_every == 0 {
            det_checked += 1;
            let (_, st2) = run_case(&env, &case, &mut oracle);
            if st2.trace_hash != st.trace_hash {
                det_mismatch += 1;
                harness_errors.push(format!("determinism: case {} (seed {:016x}) trace hashes {:016x} vs {:016x}", i, case_seed, st.trace_hash, st2.trace_hash));
            }
        }
        if dump_hashes {
            hashes.insert(i.to_string(), format!("{:016x}", st.trace_hash));
        }
        runs += 1;
        stats.stages += st.stages;
        stats.syscalls += st.syscalls;
        stats.unconstrained += st.unconstrained;
        for (k, n) in &st.fired {
            bump(&mut stats.fired, k, *n);
        }
        for (k, n) in &st.outcome {
            bump(&mut stats.outcome, k, *n);
        }
        for (k, n) in &st.probes {
            bump(&mut stats.probes, k, *n);
        }
        let form_name = format!(
            "{}{}",
            match case.stage1.form {
                Form::Arg => "arg",
                Form::StdinOmitted => "stdin",
                Form::StdinDash => "stdin-dash",
            },
            if case.stage1.sep { "+sep" } else { "" }
        );
        bump(&mut forms, &form_name, 1);
        bump(&mut forms, &format!("profile-{}", profile), 1);
        if has_faults(&case.stage1) || case.stage2.is_some() {
            nontrivial.insert(st.trace_hash ^ prng::fnv1a(serde_json::to_string(&case.to_json()).unwrap().as_bytes()));
        }
        if samples.len() < 3 && has_faults(&case.stage1) && case.stage1.form != Form::Arg {
            samples.push(case.to_json());
        }
        for (mut case, v) in found_all {
            if let Some((n, val)) = &st.env_variant {
                if !case.stage1.ambient.env.iter().any(|(k, _)| k == n) {
                    case.stage1.ambient.env.push((n.clone(), val.clone()));
                }
            }
            let sig = format!("{}/{}", v.property, v.class);
            let sig_full = v.signature();
            if !seen.insert(sig_full) {
                continue;
            }
            let (min_case, min_v, execs) = if shrunk < max_shrunk {
                shrunk += 1;
                shrink_case(&env, &case, &v, &mut oracle, 300)
            } else {
                (case.clone(), v.clone(), 0)
            };
            let name = format!("{}-e2-{:016x}-{}.json", min_v.property, case_seed, violations.len());
            let path = format!("{}/{}", replay_dir, name);
            let doc = json!({
                "engine": "e2", "property": min_v.property, "violation": min_v.to_json(), "original_violation": v.to_json(),
                "verif_seed": seed, "tier": tier, "run_index": i, "shrink_executions": execs, "case": min_case.to_json(),
                "command_line": command_line(if min_v.thread == 2 { min_case.stage2.as_ref().unwrap_or(&min_case.stage1) } else { &min_case.stage1 }),
            });
            let _ = std::fs::write(&path, serde_json::to_string_pretty(&doc).unwrap());
            violations.push(json!({"property": min_v.property, "class": min_v.class, "signature": format!("{}/{:016x}", sig, key_of(&min_case, &min_v)), "needs": min_v.needs, "replay": path,
                                   "summary": format!("{}{} -> expected {} got {}", if min_v.thread == 2 { "[second stage, fed with the first stage's stdout] " } else { "" }, command_line(if min_v.thread == 2 { min_case.stage2.as_ref().unwrap_or(&min_case.stage1) } else { &min_case.stage1 }), min_v.expected, min_v.got)}));
        }
        i += workers;
    }
    let nt_path = format!("{}.nontrivial", out_path);
    let mut bytes = Vec::with_capacity(nontrivial.len() * 8);
    for h in &nontrivial {
        bytes.extend_from_slice(&h.to_le_bytes());
    }
    let _ = std::fs::write(&nt_path, bytes);
    let summary = json!({
        "engine": "e2", "worker": worker, "runs": runs + sweep_points, "generated_cases": runs,
        "sums": {"stages": stats.stages, "intercepted_syscalls": stats.syscalls, "unconstrained_output_device_failures": stats.unconstrained,
                 "systematic_sweeps": sweeps, "systematic_sweep_points": sweep_points},
        "forms": forms, "faults_fired": stats.fired, "outcomes": stats.outcome, "probes": stats.probes,
        "determinism": {"checked": det_checked, "mismatches": det_mismatch},
        "oracle": {"forks": oracle.forks, "queries": oracle.queries},
        "nontrivial_file": nt_path, "nontrivial_local": nontrivial.len(),
        "violations": violations, "harness_errors": harness_errors, "samples": samples, "hashes": hashes,
        "wall_s": started.elapsed().as_secs_f64(),
    });
    if std::fs::write(&out_path, serde_json::to_string(&summary).unwrap()).is_err() {
        return 2;
    }
    if harness_errors.is_empty() {
        0
    } else {
        2
    }
}

/// Content key of a minimised E2 violation (for known-findings): what the user typed and what failed.
fn key_of(case: &Case, v: &Violation) -> u64 {
    let s = if v.thread == 2 { case.stage2.as_ref().unwrap_or(&case.stage1) } else { &case.stage1 };
    let mut h = prng::Hasher::new();
    h.str(&s.rule_text);
    h.bytes(&s.data_text);
    h.str(match s.form {
        Form::Arg => "arg",
        Form::StdinOmitted => "stdin",
        Form::StdinDash => "dash",
    });
    h.u64(s.sep as u64);
    h.0
}

fn sh_quote(s: &str) -> String {
    format!("'{}'", s.replace('\'', "'\\''"))
}

pub fn command_line(s: &Stage) -> String {
    let mut c = String::from("jsonlogic");
    if s.sep {
        c.push_str(" --");
    }
    c.push(' ');
    c.push_str(&sh_quote(&s.rule_text));
    match s.form {
        Form::Arg => {
            c.push(' ');
            c.push_str(&sh_quote(&String::from_utf8_lossy(&s.data_text)));
        }
        Form::StdinDash => c.push_str(&format!(" - <<< {}", sh_quote(&String::from_utf8_lossy(&s.data_text)))),
        Form::StdinOmitted => c.push_str(&format!(" <<< {}", sh_quote(&String::from_utf8_lossy(&s.data_text)))),
    }
    for x in &s.extra_args {
        c.push(' ');
        c.push_str(&sh_quote(x));
    }
    c
}

pub fn replay(doc: &Value, a: &Args) -> i32 {
    let env = env_from(a);
    hooks::install();
    let mut oracle = Oracle::start();
    let case = match doc.get("case").and_then(Case::from_json) {
        Some(c) => c,
        None => {
            eprintln!("malformed e2 replay file");
            return 2;
        }
    };
    let target = doc.get("violation").and_then(Violation::from_json);
    let (found, st) = run_case(&env, &case, &mut oracle);
    let hit = match &target {
        Some(t) => found.iter().any(|v| v.property == t.property && v.class == t.class),
        None => !found.is_empty(),
    };
    println!("{}", json!({"trace_hash": format!("{:016x}", st.trace_hash), "violations": found.iter().map(|v| v.to_json()).collect::<Vec<_>>(), "reproduced": hit}));
    if hit {
        1
    } else {
        0
    }
}
