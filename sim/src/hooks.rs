//! Glue between the library's verification seams (`jsonlogic_rs::verif`) and whatever context the
//! calling thread is in: a simulated client thread (scheduler), an isolation-oracle process, or none.

use std::cell::{Cell, RefCell};
use std::sync::atomic::{AtomicI32, Ordering};
use std::sync::Arc;

pub trait ThreadCtx {
    fn yield_point(&self, site: &'static str);
    fn emit(&self, text: &str);
}

thread_local! {
    static CTX: RefCell<Option<Arc<dyn ThreadCtx>>> = const { RefCell::new(None) };
    static LAST_PANIC_LOC: RefCell<Option<String>> = const { RefCell::new(None) };
    static IN_OP: Cell<bool> = const { Cell::new(false) };
    static INPUT_MODIFIED: Cell<bool> = const { Cell::new(false) };
}

thread_local! {
    /// scheduling points at allocator calls are enabled for this thread (inside a library call of a
    /// run that drew the "alloc-yield" knob)
    static ALLOC_YIELD: Cell<bool> = const { Cell::new(false) };
    /// the thread is inside harness code (scheduler, emit seam): allocator calls there are not points
    static IN_HARNESS: Cell<bool> = const { Cell::new(false) };
}

pub fn set_alloc_yield(v: bool) {
    ALLOC_YIELD.with(|f| f.set(v));
}

/// Run harness code with allocator scheduling points switched off; returns the previous state.
pub fn enter_harness() -> bool {
    IN_HARNESS.with(|f| f.replace(true))
}
pub fn leave_harness(prev: bool) {
    IN_HARNESS.with(|f| f.set(prev));
}

/// The allocator seam: every heap operation made by the code under test is a place where the OS
/// could preempt the thread, so it is a scheduling point too (much finer than one rule node).
pub struct SimAlloc;

#[inline]
fn alloc_point() {
    // const-initialised thread-locals without destructors: safe to touch from inside the allocator
    let on = ALLOC_YIELD.try_with(|f| f.get()).unwrap_or(false);
    if !on {
        return;
    }
    let busy = IN_HARNESS.try_with(|f| f.replace(true)).unwrap_or(true);
    if busy {
        return;
    }
    yield_hook("alloc");
    let _ = IN_HARNESS.try_with(|f| f.set(false));
}

unsafe impl std::alloc::GlobalAlloc for SimAlloc {
    unsafe fn alloc(&self, layout: std::alloc::Layout) -> *mut u8 {
        alloc_point();
        std::alloc::System.alloc(layout)
    }
    unsafe fn dealloc(&self, ptr: *mut u8, layout: std::alloc::Layout) {
        std::alloc::System.dealloc(ptr, layout);
        alloc_point();
    }
    unsafe fn realloc(&self, ptr: *mut u8, layout: std::alloc::Layout, new_size: usize) -> *mut u8 {
        alloc_point();
        std::alloc::System.realloc(ptr, layout, new_size)
    }
    unsafe fn alloc_zeroed(&self, layout: std::alloc::Layout) -> *mut u8 {
        alloc_point();
        std::alloc::System.alloc_zeroed(layout)
    }
}

pub fn set_input_modified() {
    INPUT_MODIFIED.with(|f| f.set(true));
}
pub fn take_input_modified() -> bool {
    INPUT_MODIFIED.with(|f| f.replace(false))
}

/// fd on which harness-level diagnostics are written (the process's original stderr, saved before
/// fd 1 / fd 2 are redirected into capture files).
pub static DIAG_FD: AtomicI32 = AtomicI32::new(2);

pub fn diag(msg: &str) {
    let fd = DIAG_FD.load(Ordering::Relaxed);
    let mut line = String::with_capacity(msg.len() + 1);
    line.push_str(msg);
    line.push('\n');
    unsafe {
        libc::write(fd, line.as_ptr() as *const libc::c_void, line.len());
    }
}

fn yield_hook(site: &'static str) {
    // Clone the Arc out so that no RefCell borrow is held while the thread is parked.
    let prev = if site == "alloc" { true } else { enter_harness() };
    let ctx = CTX.with(|c| c.borrow().clone());
    if let Some(ctx) = ctx {
        ctx.yield_point(site);
    }
    if site != "alloc" {
        leave_harness(prev);
    }
}

fn emit_hook(text: &str) {
    let prev = enter_harness();
    let ctx = CTX.with(|c| c.borrow().clone());
    // (an injected sink failure unwinds out of here: the flag is restored by the operation wrapper)
    match ctx {
        Some(ctx) => {
            ctx.emit(text);
            leave_harness(prev);
        }
        None => {
            // No context: behave like the shipped code (write to the process's stdout).
            use std::io::Write;
            let out = std::io::stdout();
            let mut l = out.lock();
            let _ = l.write_all(text.as_bytes());
            leave_harness(prev);
        }
    }
}

/// Install the library hooks and the panic hook. Call once, before any thread exists.
pub fn install() {
    jsonlogic_rs::verif::install(Some(yield_hook), Some(emit_hook));
    std::panic::set_hook(Box::new(|info| {
        let loc = info.location().map(|l| format!("{}:{}", l.file(), l.line()));
        if IN_OP.with(|f| f.get()) {
            LAST_PANIC_LOC.with(|l| *l.borrow_mut() = loc);
        } else {
            // A panic outside an operation is a bug of the harness itself: make it loud.
            let msg = if let Some(s) = info.payload().downcast_ref::<&str>() {
                s.to_string()
            } else if let Some(s) = info.payload().downcast_ref::<String>() {
                s.clone()
            } else {
                "?".into()
            };
            diag(&format!("HARNESS PANIC at {}: {}", loc.unwrap_or_default(), msg));
        }
    }));
}

pub fn set_ctx(ctx: Option<Arc<dyn ThreadCtx>>) {
    CTX.with(|c| *c.borrow_mut() = ctx);
}

pub fn set_in_op(v: bool) {
    IN_OP.with(|f| f.set(v));
}

pub fn clear_last_panic() {
    LAST_PANIC_LOC.with(|l| *l.borrow_mut() = None);
}

pub fn take_last_panic_location() -> Option<String> {
    LAST_PANIC_LOC.with(|l| l.borrow_mut().take())
}
