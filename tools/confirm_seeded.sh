#!/bin/bash
# Confirm a seeded change in its scratch worktree: existing suite passes with it, the demonstration fails
# with it and passes without it.   tools/confirm_seeded.sh <worktree>
set -u
WT="$1"; cd "$WT" || exit 2
export CARGO_NET_OFFLINE=true; unset RUST_BACKTRACE
demo() {
  if [ -f demo/demo.sh ]; then
    cargo build --offline --features cmdline >/dev/null 2>&1 || { echo "BUILD-FAIL"; return 99; }
    sh demo/demo.sh >/dev/null 2>&1; return $?
  else
    cp demo/demo_test.rs tests/demo_test.rs
    timeout 900 cargo test --offline --test demo_test >/dev/null 2>&1; rc=$?
    rm -f tests/demo_test.rs; return $rc
  fi
}
git diff HEAD --quiet -- src py && { echo "no change in worktree"; exit 2; }
suite=$(timeout 1500 cargo test --workspace --no-fail-fast --offline 2>&1 | grep -E "^test result" | tr '\n' ' ')
demo; with=$?
git diff HEAD -- src py > /tmp/confirm_seeded.$$.diff
git apply -R /tmp/confirm_seeded.$$.diff
demo; without=$?
git apply /tmp/confirm_seeded.$$.diff; rm -f /tmp/confirm_seeded.$$.diff
echo "$(basename $WT): suite=[$suite] demo_with_change_rc=$with demo_without_change_rc=$without"
