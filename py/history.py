#!/usr/bin/env python3
"""Engine E4: call histories against the Python extension module, judged against fork isolation.

One long-lived *pristine* parent interpreter imports jsonlogic_rs but never calls it. For every
simulated run it forks a child that executes a seeded history of jsonlogic_rs.apply /
apply_serialized calls (all optional-argument combinations); every outcome (value, or exception
type and message, plus whatever reached fd 1) must equal the outcome of the same call made as the
only call of another freshly forked child. No Python threads: the GIL is held for the whole native
call and CPython's switch interval is not a scheduler this harness owns.

  history.py --pkg-dir DIR --seed S --worker w --workers W --seconds N --out FILE --replay-dir DIR
  history.py --pkg-dir DIR --replay FILE

Violations:
  C17 outcome-differs-from-isolation / output-differs-from-isolation   (needs a history)
  C01 python-non-ValueError (SystemError, panic surfacing, ...) / python-interpreter-died
"""
import json
import os
import struct
import sys
import time

MASK = (1 << 64) - 1


def splitmix(x):
    x = (x + 0x9E3779B97F4A7C15) & MASK
    z = x
    z = ((z ^ (z >> 30)) * 0xBF58476D1CE4E5B9) & MASK
    z = ((z ^ (z >> 27)) * 0x94D049BB133111EB) & MASK
    return x, z ^ (z >> 31)


class Rng:
    """SplitMix64 stream: identical on every Python version and hash seed."""

    def __init__(self, seed):
        self.x = seed & MASK

    def u64(self):
        self.x, z = splitmix(self.x)
        return z

    def below(self, n):
        return (self.u64() * n) >> 64

    def chance(self, a, b):
        return self.below(b) < a

    def pick(self, xs):
        return xs[self.below(len(xs))]


def mix(seed, *labels):
    x = seed ^ 0xA0761D6478BD642F
    for l in labels:
        x, z = splitmix(x ^ ((l * 0xE7037ED1A0B428DB) & MASK))
        x ^= z
    return splitmix(x)[1]


# ---------------------------------------------------------------------------------------------
# workload
# ---------------------------------------------------------------------------------------------

NUMS = [0, 1, -1, 2, 3, 0.5, -0.0, 1e308, 1.7976931348623157e308, 5e-324, 2**53, 2**53 + 1, 2**63 - 1, -(2**63), 2**64 - 1, 1e19, 1.5, 100,
        -(2**63) + 1, 2**64, 10**30, float("inf"), float("nan")]
STRS = ["", "a", "abc", "0", "1", " 1 ", "1e3", "12px", "-", "inf", "NaN", "null", "é", "日本語", "😀", "a.b", "x\u0000y", "\"q\"", "apple", "\ud800",
        # long values: error messages quote them, results echo them
        "é" * 111, "中" * 100, "😀" * 70, "aé" * 90, "naïve " * 40, "x" * 300, "a" + "日本語" * 40]
KEYS = ["a", "b", "c", "x", "current", "accumulator", "0", "1", "", "a.b"]
EAGER = ["==", "!=", "===", "!==", "!", "!!", "<", "<=", ">", ">=", "+", "-", "*", "/", "%", "max", "min", "merge", "in", "cat", "substr", "log"]
LAZY = ["if", "?:", "or", "and"]


def atom(r):
    k = r.below(10)
    if k < 4:
        return r.pick(NUMS)
    if k < 7:
        return r.pick(STRS)
    if k == 7:
        return None
    if k == 8:
        return r.chance(1, 2)
    return r.pick([[], [0], [1, 2, 3], {}, {"a": 1}, {"a": {"b": 2}, "c": [1, 2]}])


def data(r, d):
    if d == 0:
        return atom(r)
    k = r.below(8)
    if k < 3:
        return {r.pick(KEYS): data(r, d - 1) for _ in range(r.below(4))}
    if k < 5:
        return [data(r, d - 1) for _ in range(r.below(4))]
    return atom(r)


def var_path(r):
    k = r.below(8)
    if k == 0:
        return ""
    if k == 1:
        return None
    if k == 2:
        return r.below(3)
    if k == 3:
        return -(2**63)
    if k == 4:
        return r.pick(KEYS) + "." + r.pick(KEYS)
    return r.pick(KEYS)


def rule(r, d):
    if d == 0:
        return {"var": var_path(r)} if r.chance(1, 4) else atom(r)
    k = r.below(10)
    if k < 5:
        op = r.pick(EAGER)
        n = r.below(4) if r.chance(1, 8) else {"!": 1, "!!": 1, "log": 1, "substr": 2 + r.below(2)}.get(op, 2 if op in ("==", "!=", "===", "!==", "/", "%", "in", "<", "<=", ">", ">=") else 1 + r.below(3))
        args = [rule(r, d - 1) for _ in range(n)]
        if op == "substr" and n >= 2 and r.chance(3, 4):
            args[0] = r.pick(STRS)
            args[1] = r.pick([0, 1, -1, 2, -(2**63), 2**63 - 1])
        return {op: args}
    if k < 7:
        return {r.pick(LAZY): [rule(r, d - 1) for _ in range(r.below(5))]}
    if k == 7:
        body = r.pick([{"var": ""}, {"log": {"var": ""}}, {">": [{"var": ""}, 1]}])
        return {r.pick(["map", "filter", "all", "some", "none"]): [[atom(r) for _ in range(r.below(4))], body]}
    if k == 8:
        return {"var": [var_path(r), rule(r, d - 1)]}
    return {"log": rule(r, d - 1)}


def bad_text(r, s):
    k = r.below(7)
    if k == 0:
        return ""
    if k == 1:
        return s[: r.below(max(1, len(s)))]
    if k == 2:
        return s + " " + s
    if k == 3:
        return "NaN"
    if k == 4:
        return "[" * 200 + "]" * 200
    if k == 5:
        return "\"\\ud800\""
    return s.replace('"', "'")


def dumps(v):
    # what the wrapper's default serializer would produce; surrogates are kept escaped
    return json.dumps(v)


def gen_call(r):
    """A call description that can be shipped to another process: plain JSON."""
    entry = "apply" if r.chance(3, 5) else "apply_serialized"
    rv = rule(r, 1 + r.below(3))
    dv = data(r, r.below(3))
    call = {"entry": entry}
    if entry == "apply":
        call["rule"] = rv
        call["data_given"] = r.chance(4, 5)
        call["data"] = dv
        call["serializer"] = r.pick(["default", "default", "dumps", "compact", "utf8", "utf8"])
        call["deserializer"] = r.pick(["default", "default", "loads", "identity"])
    else:
        # half of the hand-serialised texts carry their non-ASCII characters as raw UTF-8
        if r.chance(1, 2):
            try:
                rt = json.dumps(rv, ensure_ascii=False)
                dt = json.dumps(dv, ensure_ascii=False)
                rt.encode("utf-8")
                dt.encode("utf-8")
            except UnicodeEncodeError:
                rt = dumps(rv)
                dt = dumps(dv)
        else:
            rt = dumps(rv)
            dt = dumps(dv)
        if r.chance(1, 8):
            rt = bad_text(r, rt)
        if r.chance(1, 8):
            dt = bad_text(r, dt)
        call["rule"] = rt
        call["data_given"] = r.chance(4, 5)
        call["data"] = dt
        call["deserializer"] = r.pick(["loads", "loads", "identity", "omitted"])
    return call


def gen_history(seed):
    r = Rng(seed)
    n = 3 + r.below(40) if r.chance(3, 4) else 60 + r.below(200)
    base = [gen_call(r) for _ in range(min(n, 2 + r.below(10)))]
    hist = []
    for _ in range(n):
        c = r.pick(base) if r.chance(2, 3) else gen_call(r)
        hist.append(c)
    # callers that keep one mutable context object and change it in place between calls
    pool = []
    if r.chance(1, 3):
        for _ in range(1 + r.below(3)):
            o = data(r, 2)
            if not isinstance(o, (dict, list)):
                o = {"a": o, "temp": 20}
            pool.append(o)
        for c in hist:
            if c["entry"] == "apply" and c.get("data_given") and r.chance(1, 2):
                c2 = dict(c)
                c2["data_ref"] = r.below(len(pool))
                muts = []
                for _ in range(r.below(3)):
                    k = r.below(4)
                    if k == 0:
                        muts.append(["set", r.pick(KEYS + ["temp"]), atom(r)])
                    elif k == 1:
                        muts.append(["append", atom(r)])
                    elif k == 2:
                        muts.append(["pop"])
                    else:
                        muts.append(["set", r.pick(["a", "temp", "x"]), r.pick(NUMS[:8])])
                c2["mutate"] = muts
                hist[hist.index(c)] = c2
    # leak shapes: same rule with other data right after; an error right before a success
    for i in range(len(hist) - 1):
        if r.chance(1, 6) and hist[i]["entry"] == "apply":
            twin = dict(hist[i])
            twin["data"] = data(r, 2)
            twin["data_given"] = True
            twin.pop("data_ref", None)
            twin.pop("mutate", None)
            hist[i + 1] = twin
    # host-language twins: a call, then the same call with one leaf replaced by a value that Python
    # holds equal (True == 1 == 1.0, False == 0 == 0.0 == -0.0, equal hashes too) but JSON does not;
    # likewise dict keys. Whatever is keyed by the Python object rather than by the JSON text confuses them
    for i in range(len(hist) - 1):
        if r.chance(1, 5) and hist[i]["entry"] == "apply":
            t = py_twin(r, hist[i])
            if t is not None:
                hist[i + 1] = t
    return {"calls": hist, "pool": pool}


_PY_EQUAL = [[True, 1, 1.0], [False, 0, 0.0, -0.0]]


def _twin_value(r, v, budget):
    """Copy of v with (at most) one scalar leaf swapped for a Python-equal value of another JSON type."""
    if budget[0] <= 0:
        return v
    if isinstance(v, (bool, int, float)) and not isinstance(v, str):
        for grp in _PY_EQUAL:
            for g in grp:
                if type(g) is type(v) and g == v and repr(g) == repr(v):
                    others = [x for x in grp if not (type(x) is type(v) and repr(x) == repr(v))]
                    budget[0] -= 1
                    return r.pick(others)
        return v
    if isinstance(v, list):
        idx = list(range(len(v)))
        out = list(v)
        for i in idx:
            out[i] = _twin_value(r, v[i], budget)
            if budget[0] <= 0:
                break
        return out
    if isinstance(v, dict):
        out = {}
        for k, x in v.items():
            out[k] = _twin_value(r, x, budget) if budget[0] > 0 else x
        return out
    return v


def py_twin(r, call):
    which = "rule" if r.chance(2, 3) or not call.get("data_given") else "data"
    budget = [1]
    t = dict(call)
    t.pop("data_ref", None)
    t.pop("mutate", None)
    t[which] = _twin_value(r, call.get(which), budget)
    if budget[0] == 1:
        # no such leaf: plant one (a comparison against 1 / True keeps most rules meaningful)
        if which == "rule":
            base = dict(call)
            base.pop("data_ref", None)
            base.pop("mutate", None)
            lit = r.pick([1, True, 1.0, 0, False, 0.0])
            call["rule"] = {"===": [call.get("rule"), lit]}
            t["rule"] = {"===": [call["rule"]["==="][0], r.pick([x for g in _PY_EQUAL for x in g if x == lit and not (type(x) is type(lit) and repr(x) == repr(lit))])]}
        else:
            return None
    return t


# ---------------------------------------------------------------------------------------------
# executing one call
# ---------------------------------------------------------------------------------------------

def _fix(v):
    """JSON transport turns NaN/inf into floats again via allow_nan; nothing else to restore."""
    return v


def mutate(obj, muts):
    for m in muts or []:
        try:
            if m[0] == "set" and isinstance(obj, dict):
                obj[m[1]] = m[2]
            elif m[0] == "set" and isinstance(obj, list) and obj:
                obj[0] = m[2]
            elif m[0] == "append" and isinstance(obj, list):
                obj.append(m[1])
            elif m[0] == "append" and isinstance(obj, dict):
                obj["appended"] = m[1]
            elif m[0] == "pop" and obj:
                if isinstance(obj, list):
                    obj.pop()
                else:
                    obj.pop(sorted(obj.keys(), key=str)[0])
        except Exception:  # noqa
            pass


def concrete(hist):
    """The same calls with every shared object replaced by a private copy of its content at that moment."""
    import copy
    pool = copy.deepcopy(hist["pool"])
    out = []
    for c in hist["calls"]:
        if "data_ref" in c:
            mutate(pool[c["data_ref"]], c.get("mutate"))
            c2 = {k: v for k, v in c.items() if k not in ("data_ref", "mutate")}
            c2["data"] = copy.deepcopy(pool[c["data_ref"]])
            out.append(c2)
        else:
            out.append(c)
    return out


def perform(mod, call, pool=None):
    """Returns (kind, payload): ('ok', json text of the result) or ('exc', 'TypeName: message')."""
    kw = {}
    try:
        if call["entry"] == "apply":
            ser = {"default": None, "dumps": json.dumps, "compact": lambda o: json.dumps(o, separators=(",", ":")),
                   "utf8": lambda o: json.dumps(o, ensure_ascii=False)}[call["serializer"]]
            de = {"default": None, "loads": json.loads, "identity": lambda s: s}[call["deserializer"]]
            if ser is not None:
                kw["serializer"] = ser
            if de is not None:
                kw["deserializer"] = de
            if "data_ref" in call and pool is not None:
                obj = pool[call["data_ref"]]
                mutate(obj, call.get("mutate"))
                res = mod.apply(call["rule"], obj, **kw)
            elif call["data_given"]:
                res = mod.apply(call["rule"], call["data"], **kw)
            else:
                res = mod.apply(call["rule"], **kw)
        else:
            de = {"loads": json.loads, "identity": lambda s: s, "omitted": None}[call["deserializer"]]
            if de is not None:
                kw["deserializer"] = de
            if call["data_given"]:
                res = mod.apply_serialized(call["rule"], call["data"], **kw)
            else:
                res = mod.apply_serialized(call["rule"], **kw)
        return ("ok", json.dumps(res, sort_keys=True))
    except BaseException as e:  # noqa: B902 - a panic surfaces as a BaseException subclass in some bindings
        return ("exc", "%s: %s" % (type(e).__name__, e))


def in_child(fn):
    """Run fn() in a forked child with fd 1 captured. Returns (status, result_or_None, captured_stdout)."""
    rfd, wfd = os.pipe()
    cap = os.memfd_create("e4-out")
    pid = os.fork()
    if pid == 0:
        try:
            os.close(rfd)
            os.dup2(cap, 1)
            out = fn()
            sys.stdout.flush()
            payload = json.dumps(out).encode()
            os.write(wfd, struct.pack("<I", len(payload)) + payload)
        finally:
            os._exit(0)
    os.close(wfd)
    chunks = []
    while True:
        b = os.read(rfd, 1 << 16)
        if not b:
            break
        chunks.append(b)
    os.close(rfd)
    _, status = os.waitpid(pid, 0)
    os.lseek(cap, 0, os.SEEK_SET)
    captured = b""
    while True:
        b = os.read(cap, 1 << 16)
        if not b:
            break
        captured += b
    os.close(cap)
    raw = b"".join(chunks)
    result = None
    if len(raw) >= 4:
        (n,) = struct.unpack("<I", raw[:4])
        if len(raw) >= 4 + n:
            result = json.loads(raw[4:4 + n].decode())
    return status, result, captured.decode("utf-8", "replace")


def key_of(call):
    # order-preserving: the order of a dict's keys is part of the call (the serialiser writes them in
    # that order, and an error message quotes a column of that text)
    return json.dumps(call)


def fnv(text):
    h = 0xCBF29CE484222325
    for b in text.encode("utf-8", "surrogatepass"):
        h = ((h ^ b) * 0x100000001B3) & MASK
    return h


class Oracle:
    def __init__(self, mod):
        self.mod = mod
        self.memo = {}
        self.forks = 0

    def isolated(self, call):
        k = key_of(call)
        if k in self.memo:
            return self.memo[k]
        self.forks += 1
        mod = self.mod

        def one():
            return perform(mod, call)

        status, res, out = in_child(one)
        if res is None or status != 0:
            ans = ("died", "status %d" % status, out)
        else:
            ans = (res[0], res[1], out)
        self.memo[k] = ans
        return ans


def run_history(mod, hist):
    """Execute the whole history in one forked child; per call (kind, payload, captured-output-delta)."""
    def body():
        import copy
        outs = []
        pos = 0
        pool = copy.deepcopy(hist["pool"])
        for c in hist["calls"]:
            k, p = perform(mod, c, pool)
            sys.stdout.flush()
            end = os.lseek(1, 0, os.SEEK_CUR)
            os.lseek(1, pos, os.SEEK_SET)
            delta = os.read(1, end - pos).decode("utf-8", "replace") if end > pos else ""
            os.lseek(1, end, os.SEEK_SET)
            pos = end
            outs.append([k, p, delta])
        return outs

    return in_child(body)


def judge(hist_full, status, outs, oracle):
    viol = []
    hist = concrete(hist_full)
    if outs is None or status != 0:
        viol.append({"property": "C01", "class": "python-interpreter-died", "index": -1, "expected": "every call returns or raises", "got": "child status %d after a history of %d calls" % (status, len(hist)), "needs": "history-or-schedule"})
        viol.append({"property": "C17", "class": "python-interpreter-died", "index": -1, "expected": "every call returns or raises", "got": "child status %d" % status, "needs": "history-or-schedule"})
        return viol
    for i, (c, o) in enumerate(zip(hist, outs)):
        iso = oracle.isolated(c)
        if iso[0] == "died":
            viol.append({"property": "C01", "class": "python-interpreter-died", "index": i, "call": c, "expected": "a value or ValueError", "got": iso[1], "needs": "input-only"})
            continue
        for kind, payload, where in ((o[0], o[1], "history"), (iso[0], iso[1], "isolation")):
            if kind == "exc" and not payload.startswith(("ValueError:", "TypeError:", "OverflowError:", "RecursionError:", "UnicodeEncodeError:", "JSONDecodeError:")):
                viol.append({"property": "C01", "class": "python-non-ValueError", "index": i, "call": c, "expected": "a value or an ordinary exception (ValueError)", "got": "%s (in %s)" % (payload[:300], where),
                             "needs": "input-only" if where == "isolation" or (iso[0], iso[1]) == (o[0], o[1]) else "history-or-schedule"})
                break
        if (o[0], o[1]) != (iso[0], iso[1]):
            viol.append({"property": "C17", "class": "outcome-differs-from-isolation", "index": i, "call": c, "expected": "%s %s" % (iso[0], iso[1][:300]), "got": "%s %s" % (o[0], o[1][:300]), "needs": "history-or-schedule"})
        elif o[2] != iso[2]:
            viol.append({"property": "C17", "class": "output-differs-from-isolation", "index": i, "call": c, "expected": iso[2][:300], "got": o[2][:300], "needs": "history-or-schedule"})
    return viol


def shrink(mod, hist, target, oracle, budget=120):
    """Drop calls while a violation of the same property/class persists."""
    def fails(h):
        st, outs, _ = run_history(mod, h)
        vs = judge(h, st, outs, oracle)
        for v in vs:
            if v["property"] == target["property"] and v["class"] == target["class"]:
                return v
        return None

    best, bv = list(hist["calls"]), target
    pool = hist["pool"]
    n = 0
    chunk = max(1, len(best) // 2)
    while chunk >= 1 and n < budget:
        i = len(best)
        changed = False
        while i > 0 and n < budget:
            lo = max(0, i - chunk)
            cand = best[:lo] + best[i:]
            if cand:
                n += 1
                v = fails({"calls": cand, "pool": pool})
                if v:
                    best, bv, changed = cand, v, True
            i = lo
        if chunk == 1 and not changed:
            break
        chunk = max(1, chunk // 2) if chunk > 1 else (1 if changed else 0)
        if chunk == 0:
            break
    return {"calls": best, "pool": pool}, bv, n


def main():
    args = dict(zip(sys.argv[1::2], sys.argv[2::2]))
    pkg = args["--pkg-dir"]
    sys.path.insert(0, pkg)
    import jsonlogic_rs as mod  # imported, never called in this process

    oracle = Oracle(mod)
    if "--replay" in args:
        doc = json.load(open(args["--replay"]))
        hist = doc["history"]
        if isinstance(hist, list):
            hist = {"calls": hist, "pool": []}
        st, outs, _ = run_history(mod, hist)
        vs = judge(hist, st, outs, oracle)
        t = doc.get("violation") or {}
        hit = [v for v in vs if v["property"] == t.get("property") and v["class"] == t.get("class")] if t else vs
        print(json.dumps({"replayed": args["--replay"], "violations": vs[:5], "reproduced": bool(hit)}))
        sys.exit(1 if hit else 0)

    seed = int(args.get("--seed", "1"))
    worker = int(args.get("--worker", "0"))
    workers = int(args.get("--workers", "1"))
    seconds = float(args.get("--seconds", "10"))
    out_path = args["--out"]
    replay_dir = args.get("--replay-dir", ".")
    t0 = time.time()
    runs = calls = 0
    kinds = {}
    violations = []
    seen = set()
    det_checked = det_mismatch = 0
    samples = []
    hashes = []
    i = worker
    while (time.time() - t0 < seconds or runs == 0) and len(violations) < 6:
        hseed = mix(seed, 4, i)
        hist = gen_history(hseed)
        st, outs, _ = run_history(mod, hist)
        if runs % 25 == 0:
            det_checked += 1
            st2, outs2, _ = run_history(mod, hist)
            if (st, outs) != (st2, outs2):
                det_mismatch += 1
        vs = judge(hist, st, outs, oracle)
        runs += 1
        calls += len(hist["calls"])
        if outs:
            for o in outs:
                kk = o[0] if o[0] == "ok" else o[1].split(":")[0]
                kinds[kk] = kinds.get(kk, 0) + 1
            hashes.append(fnv(json.dumps(outs)))
        if len(samples) < 2:
            samples.append({"history_len": len(hist["calls"]), "shared_mutable_objects": len(hist["pool"]), "first_calls": hist["calls"][:3]})
        for v in vs:
            sig = "%s/%s/%s" % (v["property"], v["class"], key_of(v.get("call", {}))[:200])
            if sig in seen:
                continue
            seen.add(sig)
            h2, v2, execs = shrink(mod, hist, v, oracle)
            path = os.path.join(replay_dir, "%s-e4-%016x-%d.json" % (v2["property"], hseed, len(violations)))
            json.dump({"engine": "e4", "property": v2["property"], "violation": v2, "history": h2, "verif_seed": seed, "run_index": i, "shrink_executions": execs}, open(path, "w"), indent=1)
            violations.append({"property": v2["property"], "class": v2["class"], "needs": v2.get("needs"), "replay": path,
                               "signature": "%s/%s/%016x" % (v2["property"], v2["class"], fnv(key_of(v2.get("call", {})))),
                               "summary": "history of %d call(s), call #%s %s -> expected %s got %s" % (len(h2["calls"]), v2.get("index"), json.dumps(v2.get("call"))[:300], v2["expected"][:200], v2["got"][:200])})
        i += workers
    json.dump({"engine": "e4", "worker": worker, "runs": runs, "sums": {"calls": calls, "isolation_forks": oracle.forks}, "outcomes": kinds,
               "determinism": {"checked": det_checked, "mismatches": det_mismatch}, "violations": violations, "samples": samples,
               "distinct_histories": len(set(hashes)), "harness_errors": ["determinism: %d histories gave different outcomes when run twice" % det_mismatch] if det_mismatch else [],
               "wall_s": time.time() - t0}, open(out_path, "w"))
    sys.exit(2 if det_mismatch else 0)


if __name__ == "__main__":
    main()
