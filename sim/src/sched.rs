//! Baton-passing scheduler over real OS threads.
//!
//! Exactly one client thread runs at any time. A running thread keeps the baton until it reaches
//! a scheduling point (operation start / end, or one of the library's `verif::yield_point` /
//! `verif::emit` seams); there the *chooser* — a seeded strategy or a recorded choice list —
//! names the thread that continues. The list of names is the schedule: replaying it reproduces
//! the execution exactly, because nothing else in the process is concurrent.

use std::sync::{Arc, Condvar, Mutex};
use std::time::Duration;

use crate::hooks::{self, ThreadCtx};
use crate::ops::{self, Op, Pool, Res};
use crate::prng::{Hasher, Rng};

pub const MAIN: usize = usize::MAX;
/// nobody holds the baton: every live thread is blocked; the supervisor decides what that means
const NOBODY: usize = usize::MAX - 1;

#[derive(Clone, Debug, PartialEq)]
pub enum Strategy {
    /// one thread after another, in this order
    Sequential(Vec<u8>),
    Uniform,
    /// stay on the current thread with probability pct/100
    Burst(u32),
    /// PCT: random priorities, `d` priority-change points over the expected number of decisions
    Pct { d: u32, expected: u64 },
    /// run order[0] up to its k-th scheduling point, run order[1] to completion, then sequential by order
    OnePreempt { order: Vec<u8>, k: u64 },
}

impl Strategy {
    pub fn name(&self) -> &'static str {
        match self {
            Strategy::Sequential(_) => "sequential",
            Strategy::Uniform => "uniform",
            Strategy::Burst(_) => "burst",
            Strategy::Pct { .. } => "pct",
            Strategy::OnePreempt { .. } => "one-preempt",
        }
    }
}

pub enum Chooser {
    Strat { s: Strategy, rng: Rng, prio: Vec<u64>, change_at: Vec<u64>, low: u64, victim_points: u64, phase: u8 },
    Replay { list: Vec<u8>, pos: usize },
}

impl Chooser {
    pub fn from_strategy(s: Strategy, nthreads: usize, mut rng: Rng) -> Chooser {
        let mut prio = Vec::new();
        let mut change_at = Vec::new();
        if let Strategy::Pct { d, expected } = &s {
            let mut p: Vec<u64> = (0..nthreads as u64).map(|i| 1000 + i).collect();
            rng.shuffle(&mut p);
            prio = p;
            for _ in 0..*d {
                change_at.push(rng.below((*expected).max(1) as usize) as u64);
            }
            change_at.sort();
        }
        Chooser::Strat { s, rng, prio, change_at, low: 999, victim_points: 0, phase: 0 }
    }
    pub fn replay(list: Vec<u8>) -> Chooser {
        Chooser::Replay { list, pos: 0 }
    }

    /// `cur`: the thread at the scheduling point (MAIN at run start or when a thread just finished).
    /// `alive`: threads that still have work. `decision`: index of this decision in the run.
    fn choose(&mut self, cur: usize, alive: &[bool], decision: u64) -> usize {
        let runnable: Vec<usize> = (0..alive.len()).filter(|t| alive[*t]).collect();
        debug_assert!(!runnable.is_empty());
        let cur_ok = cur != MAIN && alive[cur];
        let fallback = if cur_ok { cur } else { runnable[0] };
        match self {
            Chooser::Replay { list, pos } => {
                let c = list.get(*pos).copied();
                *pos += 1;
                match c {
                    Some(t) if (t as usize) < alive.len() && alive[t as usize] => t as usize,
                    _ => fallback,
                }
            }
            Chooser::Strat { s, rng, prio, change_at, low, victim_points, phase } => match s {
                Strategy::Sequential(order) => order.iter().map(|t| *t as usize).find(|t| *t < alive.len() && alive[*t]).unwrap_or(fallback),
                Strategy::Uniform => runnable[rng.below(runnable.len())],
                Strategy::Burst(pct) => {
                    if cur_ok && rng.chance(*pct as usize, 100) {
                        cur
                    } else {
                        let others: Vec<usize> = runnable.iter().copied().filter(|t| *t != cur).collect();
                        if others.is_empty() {
                            fallback
                        } else {
                            others[rng.below(others.len())]
                        }
                    }
                }
                Strategy::Pct { .. } => {
                    while let Some(first) = change_at.first().copied() {
                        if first <= decision {
                            change_at.remove(0);
                            if cur_ok {
                                prio[cur] = *low;
                                *low -= 1;
                            }
                        } else {
                            break;
                        }
                    }
                    *runnable.iter().max_by_key(|t| prio[**t]).unwrap()
                }
                Strategy::OnePreempt { order, k } => {
                    let victim = order[0] as usize;
                    let other = order.get(1).map(|t| *t as usize);
                    let seq = |alive: &[bool]| order.iter().map(|t| *t as usize).find(|t| alive[*t]).unwrap_or(fallback);
                    match *phase {
                        0 => {
                            if !alive[victim] {
                                *phase = 2;
                                seq(alive)
                            } else if cur == victim && *victim_points >= *k {
                                *phase = 1;
                                match other {
                                    Some(o) if alive[o] => o,
                                    _ => {
                                        *phase = 2;
                                        seq(alive)
                                    }
                                }
                            } else {
                                if cur == victim {
                                    *victim_points += 1;
                                }
                                victim
                            }
                        }
                        1 => match other {
                            Some(o) if alive[o] => o,
                            _ => {
                                *phase = 2;
                                seq(alive)
                            }
                        },
                        _ => seq(alive),
                    }
                }
            },
        }
    }
}

#[derive(Clone, Debug)]
pub struct EmitFault {
    pub thread: usize,
    pub op: usize,
    /// fail the emit with this index (0-based) within that operation
    pub emit: u64,
}

#[derive(Clone, Debug)]
pub struct CallRecord {
    pub res: Res,
    pub emitted: String,
    pub emits: u64,
    pub injected: bool,
    /// global decision numbers at which the call started / ended
    pub start: u64,
    pub end: u64,
    /// the operands still serialise to their original texts right after the call
    pub inputs_intact: bool,
}

#[derive(Clone, Debug)]
pub struct EmitEvent {
    pub thread: usize,
    pub op: usize,
    pub text: String,
}

#[derive(Debug, Default, Clone)]
pub struct Probes {
    /// max number of threads simultaneously inside a call with >= 20 scheduling points passed
    pub deep_overlap: u64,
    pub emit_fault_fired: u64,
    pub emit_fault_while_other_in_call: u64,
    pub switches_between_emits_of_one_call: u64,
    pub calls_overlapping: u64,
    pub lock_blocked_threads_passed_over: u64,
    pub clock_advances: u64,
}

pub struct RunOutput {
    pub calls: Vec<Vec<CallRecord>>,
    pub stream: Vec<EmitEvent>,
    pub choices: Vec<u8>,
    pub steps: u64,
    pub switches: u64,
    pub switches_in_call: u64,
    /// hash over every (thread, site, op index) event, every choice and every outcome
    pub event_hash: u64,
    /// hash over the decision sequence only (thread, site, op index, chosen)
    pub interleaving_hash: u64,
    pub capped: bool,
    pub probes: Probes,
    /// distinct (op-kind running, site, op-kind switched to) cells
    pub cells: Vec<(String, &'static str, String)>,
    pub stalled: Option<String>,
}

struct St {
    current: usize,
    alive: Vec<bool>,
    cur_op: Vec<usize>,
    in_call: Vec<bool>,
    call_points: Vec<u64>,
    emit_count: Vec<u64>,
    injected_now: Vec<bool>,
    last_emitter: Option<(usize, usize)>,
    chooser: Chooser,
    choices: Vec<u8>,
    steps: u64,
    step_cap: u64,
    switches: u64,
    switches_in_call: u64,
    ev: Hasher,
    il: Hasher,
    capped: bool,
    stream: Vec<EmitEvent>,
    fault: Option<EmitFault>,
    probes: Probes,
    cells: Vec<(String, &'static str, String)>,
    kinds: Vec<Vec<String>>,
    /// kernel thread ids of the client threads (for /proc state inspection)
    ktids: Vec<i32>,
    /// the thread was given the baton but went to sleep in the kernel on something a parked thread
    /// holds (a std lock taken by the code under test and kept across a scheduling point)
    blocked: Vec<bool>,
    blocked_events: u64,
    /// set when no thread can run any more although some are alive
    deadlock: Option<String>,
}

/// Is this kernel thread asleep inside a futex wait? (/proc/self/task/<tid>/stat says S and
/// /proc/self/task/<tid>/syscall names futex.) That is what a thread blocked on a std Mutex, RwLock,
/// Condvar or Once looks like; a thread in nanosleep or blocking I/O does not qualify.
fn thread_sleeping(ktid: i32) -> bool {
    if ktid <= 0 {
        return false;
    }
    let asleep = match std::fs::read(format!("/proc/self/task/{}/stat", ktid)) {
        Ok(b) => match b.iter().rposition(|c| *c == b')') {
            Some(pos) => b.get(pos + 2) == Some(&b'S'),
            None => false,
        },
        Err(_) => false,
    };
    if !asleep {
        return false;
    }
    match std::fs::read_to_string(format!("/proc/self/task/{}/syscall", ktid)) {
        Ok(t) => {
            let nr = t.split_whitespace().next().unwrap_or("");
            nr == "202" || nr == "449" // futex, futex_waitv
        }
        Err(_) => true,
    }
}

/// Every thread of the process except the calling one (the supervisor) sleeps in a futex wait: a state
/// that cannot change by itself. Threads the code under test created for itself count too - while one
/// of them runs, a caller waiting for it is not blocked for good.
fn all_other_tasks_asleep() -> bool {
    let me = unsafe { libc::syscall(libc::SYS_gettid) } as i32;
    let dir = match std::fs::read_dir("/proc/self/task") {
        Ok(d) => d,
        Err(_) => return false,
    };
    let mut n = 0;
    for e in dir.flatten() {
        if let Some(t) = e.file_name().to_str().and_then(|s| s.parse::<i32>().ok()) {
            if t == me {
                continue;
            }
            n += 1;
            if !thread_sleeping(t) {
                return false;
            }
        }
    }
    n > 0
}

fn runnable_mask(st: &St) -> Vec<bool> {
    (0..st.alive.len()).map(|t| st.alive[t] && !st.blocked[t]).collect()
}

pub struct Shared {
    m: Mutex<St>,
    cvs: Vec<Condvar>,
    /// completion is signalled to the main thread through a pipe and awaited with poll(): a relative,
    /// kernel-measured timeout, so the watchdog never reads a clock the ambient faults may have skewed
    done_r: i32,
    done_w: i32,
}

struct ClientCtx {
    shared: Arc<Shared>,
    tid: usize,
}

impl Shared {
    fn kind_of(st: &St, t: usize) -> String {
        st.kinds[t].get(st.cur_op[t]).cloned().unwrap_or_else(|| "-".into())
    }

    /// Before a decision is taken, every thread that was blocked and has since been released by
    /// the kernel must have either reached its next scheduling point or gone back to sleep, so that
    /// the set of runnable threads at this decision does not depend on timing.
    fn settle<'a>(&'a self, mut st: std::sync::MutexGuard<'a, St>, me: usize) -> std::sync::MutexGuard<'a, St> {
        loop {
            let pending: Vec<usize> = (0..st.alive.len()).filter(|t| *t != me && st.alive[*t] && st.blocked[*t]).collect();
            if pending.is_empty() {
                return st;
            }
            let ktids: Vec<i32> = pending.iter().map(|t| st.ktids[*t]).collect();
            drop(st);
            // a released thread is runnable from the moment the releasing unlock returned; give it
            // the CPU until it parks at its next point (it then clears its blocked flag) or sleeps again
            let mut all_asleep = true;
            for k in &ktids {
                if !thread_sleeping(*k) {
                    all_asleep = false;
                }
            }
            if all_asleep {
                // double-check after a short pause: asleep twice in a row = still blocked
                std::thread::yield_now();
                let again = ktids.iter().all(|k| thread_sleeping(*k));
                st = self.m.lock().unwrap();
                if again {
                    let still: Vec<usize> = (0..st.alive.len()).filter(|t| *t != me && st.alive[*t] && st.blocked[*t]).collect();
                    if still == pending {
                        return st;
                    }
                }
                continue;
            }
            std::thread::yield_now();
            st = self.m.lock().unwrap();
        }
    }

    fn point(&self, tid: usize, site: &'static str) {
        let mut st = self.m.lock().unwrap();
        if site == "alloc" && st.blocked_events > 40 && st.current == tid {
            // the code under test allocates while holding a lock: every such point costs a supervisor
            // round trip; after enough of them this run falls back to node granularity
            return;
        }
        if st.current != tid {
            // This thread had been given the baton, blocked in the kernel on a lock held by a parked
            // thread, was passed over, and has now been released: it parks here like everybody else.
            debug_assert!(st.blocked[tid], "a thread ran without the baton");
            // (not hashed: the moment of arrival relative to the baton holder's events is timing)
            st.blocked[tid] = false;
            while st.current != tid {
                st = self.cvs[tid].wait(st).unwrap();
                st.blocked[tid] = false;
            }
        }
        st.steps += 1;
        if st.in_call[tid] {
            st.call_points[tid] += 1;
        }
        let op_idx = st.cur_op[tid] as u64;
        st.ev.u64(tid as u64);
        st.ev.str(site);
        st.ev.u64(op_idx);
        if st.steps > st.step_cap {
            st.capped = true;
            return;
        }
        // probes
        let deep = (0..st.alive.len()).filter(|t| st.in_call[*t] && st.call_points[*t] >= 20).count() as u64;
        if deep > st.probes.deep_overlap {
            st.probes.deep_overlap = deep;
        }
        if st.blocked.iter().any(|b| *b) {
            st = self.settle(st, tid);
        }
        let decision = st.choices.len() as u64;
        let mask = runnable_mask(&st);
        let next = st.chooser.choose(tid, &mask, decision);
        st.choices.push(next as u8);
        st.il.u64(tid as u64);
        st.il.str(site);
        st.il.u64(op_idx);
        st.il.u64(next as u64);
        st.ev.u64(next as u64);
        if next != tid {
            st.switches += 1;
            if st.in_call[tid] {
                st.switches_in_call += 1;
                if st.cells.len() < 4096 {
                    let cell = (Self::kind_of(&st, tid), site, Self::kind_of(&st, next));
                    st.cells.push(cell);
                }
                if st.in_call[next] {
                    st.probes.calls_overlapping += 1;
                }
            }
            st.current = next;
            self.cvs[next].notify_one();
            while st.current != tid {
                st = self.cvs[tid].wait(st).unwrap();
                // a thread that wakes up here is parked at a scheduling point, whatever the supervisor
                // concluded while its wake-up was still in flight
                st.blocked[tid] = false;
            }
        }
    }

    fn wait_for_baton(&self, tid: usize) {
        let mut st = self.m.lock().unwrap();
        st.ktids[tid] = unsafe { libc::syscall(libc::SYS_gettid) } as i32;
        while st.current != tid {
            st = self.cvs[tid].wait(st).unwrap();
            st.blocked[tid] = false;
        }
    }

    fn finish(&self, tid: usize) {
        let mut st = self.m.lock().unwrap();
        if st.current != tid {
            // released straggler that had nothing left but to finish
            st.blocked[tid] = false;
            while st.current != tid {
                st = self.cvs[tid].wait(st).unwrap();
                st.blocked[tid] = false;
            }
        }
        st.alive[tid] = false;
        st.ev.u64(tid as u64);
        st.ev.str("finish");
        if st.blocked.iter().any(|b| *b) {
            st = self.settle(st, tid);
        }
        if st.alive.iter().any(|a| *a) {
            let mask = runnable_mask(&st);
            if !mask.iter().any(|r| *r) {
                // every other live thread is blocked: let the supervisor watch whether that is final
                st.current = NOBODY;
                return;
            }
            let decision = st.choices.len() as u64;
            let next = st.chooser.choose(MAIN, &mask, decision);
            st.choices.push(next as u8);
            st.il.u64(tid as u64);
            st.il.str("finish");
            st.il.u64(next as u64);
            st.current = next;
            self.cvs[next].notify_one();
        } else {
            st.current = MAIN;
            let b = [1u8];
            unsafe { libc::write(self.done_w, b.as_ptr() as *const libc::c_void, 1) };
        }
    }
}

impl ThreadCtx for ClientCtx {
    fn yield_point(&self, site: &'static str) {
        self.shared.point(self.tid, site);
    }
    fn emit(&self, text: &str) {
        let tid = self.tid;
        {
            let mut st = self.shared.m.lock().unwrap();
            let op = st.cur_op[tid];
            let n = st.emit_count[tid];
            st.emit_count[tid] += 1;
            let hit = match &st.fault {
                Some(f) => f.thread == tid && f.op == op && f.emit == n,
                None => false,
            };
            if hit {
                st.injected_now[tid] = true;
                st.probes.emit_fault_fired += 1;
                if (0..st.alive.len()).any(|t| t != tid && st.in_call[t]) {
                    st.probes.emit_fault_while_other_in_call += 1;
                }
                st.ev.str("emit-fault");
                drop(st);
                // what std's print machinery does when the device fails
                panic!("failed printing to stdout: Broken pipe (os error 32)");
            }
            if let Some((lt, lo)) = st.last_emitter {
                if (lt, lo) != (tid, op) && n > 0 {
                    st.probes.switches_between_emits_of_one_call += 1;
                }
            }
            st.last_emitter = Some((tid, op));
            st.ev.str(text);
            st.stream.push(EmitEvent { thread: tid, op, text: text.to_string() });
        }
        self.shared.point(tid, "emit");
    }
}

pub struct RunSpec<'a> {
    pub threads: &'a [Vec<Op>],
    pub stack_kb: &'a [usize],
    pub fault: Option<EmitFault>,
    pub step_cap: u64,
    /// allocator calls inside library calls are scheduling points too
    pub alloc_yield: bool,
    /// per-step watchdog; expiry is a harness error (an uninstrumented blocking primitive), never a violation
    pub watchdog: Duration,
    /// non-zero: between calls the schedule moves the simulated clock forward (3 s before one call in
    /// eight, a day before another one in eight - which ones follows from this seed, the caller and the
    /// call index): within a call the clock is smooth, between two calls anything may have passed
    pub clock_seed: u64,
}

/// Move the interposed clocks forward (no-op without the interposer).
fn clock_advance(seconds: i64) -> bool {
    let name = std::ffi::CString::new("simio_clock_advance").unwrap();
    let sym = unsafe { libc::dlsym(libc::RTLD_DEFAULT, name.as_ptr()) };
    if sym.is_null() {
        return false;
    }
    let f: extern "C" fn(i64) = unsafe { std::mem::transmute(sym) };
    f(seconds);
    true
}

/// Execute one simulated run. `pool` serves the shared operands.
pub fn execute(spec: &RunSpec, chooser: Chooser, pool: Arc<dyn Pool + Send + Sync>, texts_of: &dyn Fn(&Op) -> Vec<String>) -> RunOutput {
    let _ = texts_of;
    let n = spec.threads.len();
    let st = St {
        current: MAIN,
        alive: spec.threads.iter().map(|t| !t.is_empty()).collect(),
        cur_op: vec![0; n],
        in_call: vec![false; n],
        call_points: vec![0; n],
        emit_count: vec![0; n],
        injected_now: vec![false; n],
        last_emitter: None,
        chooser,
        choices: Vec::new(),
        steps: 0,
        step_cap: spec.step_cap,
        switches: 0,
        switches_in_call: 0,
        ev: Hasher::new(),
        il: Hasher::new(),
        capped: false,
        stream: Vec::new(),
        fault: spec.fault.clone(),
        probes: Probes::default(),
        cells: Vec::new(),
        kinds: spec.threads.iter().map(|ops| ops.iter().map(|o| o.kind.clone()).collect()).collect(),
        ktids: vec![0; n],
        blocked: vec![false; n],
        blocked_events: 0,
        deadlock: None,
    };
    let mut fds = [0i32; 2];
    assert!(unsafe { libc::pipe2(fds.as_mut_ptr(), libc::O_CLOEXEC) } == 0);
    let shared = Arc::new(Shared { m: Mutex::new(st), cvs: (0..n).map(|_| Condvar::new()).collect(), done_r: fds[0], done_w: fds[1] });

    let mut handles = Vec::new();
    for tid in 0..n {
        let ops_list: Vec<Op> = spec.threads[tid].clone();
        if ops_list.is_empty() {
            handles.push(None);
            continue;
        }
        let shared2 = shared.clone();
        let pool2 = pool.clone();
        let alloc_yield = spec.alloc_yield;
        let clock_seed = spec.clock_seed;
        let h = std::thread::Builder::new()
            .stack_size(spec.stack_kb[tid] * 1024)
            .name(format!("client-{}", tid))
            .spawn(move || {
                let ctx: Arc<dyn ThreadCtx> = Arc::new(ClientCtx { shared: shared2.clone(), tid });
                hooks::set_ctx(Some(ctx));
                shared2.wait_for_baton(tid);
                let mut records = Vec::with_capacity(ops_list.len());
                for (i, op) in ops_list.iter().enumerate() {
                    {
                        let mut st = shared2.m.lock().unwrap();
                        st.cur_op[tid] = i;
                        st.emit_count[tid] = 0;
                        st.injected_now[tid] = false;
                        st.call_points[tid] = 0;
                    }
                    shared2.point(tid, "start");
                    if clock_seed != 0 {
                        let r = crate::prng::mix(clock_seed, &[0xC10C, tid as u64, i as u64]) % 8;
                        let moved = match r {
                            0 => clock_advance(3),
                            1 => clock_advance(86_400),
                            _ => false,
                        };
                        if moved {
                            shared2.m.lock().unwrap().probes.clock_advances += 1;
                        }
                    }
                    let (start, stream_from) = {
                        let mut st = shared2.m.lock().unwrap();
                        st.in_call[tid] = true;
                        (st.choices.len() as u64, st.stream.len())
                    };
                    hooks::set_in_op(true);
                    hooks::leave_harness(false);
                    hooks::set_alloc_yield(alloc_yield);
                    let res = ops::exec(&*pool2, op);
                    hooks::set_alloc_yield(false);
                    hooks::leave_harness(false);
                    hooks::set_in_op(false);
                    // operands still what they were? (shared operands only; fresh ones are gone)
                    let inputs_intact = if op.fresh {
                        !hooks::take_input_modified()
                    } else {
                        op.args.iter().enumerate().all(|(pos, t)| match pool2.get(pos, t) {
                            Some(v) => serde_json::to_string(&*v).map(|s| &s == t).unwrap_or(false),
                            None => true,
                        })
                    };
                    let rec = {
                        let mut st = shared2.m.lock().unwrap();
                        st.in_call[tid] = false;
                        let mut emitted = String::new();
                        let mut emits = 0;
                        for e in &st.stream[stream_from..] {
                            if e.thread == tid && e.op == i {
                                emitted.push_str(&e.text);
                                emits += 1;
                            }
                        }
                        let injected = st.injected_now[tid];
                        st.ev.str(res.tag());
                        match &res {
                            Res::Ok(s) | Res::Err(s) | Res::Panic(s) | Res::Crash(s) => st.ev.str(s),
                        }
                        CallRecord { res, emitted, emits, injected, start, end: st.choices.len() as u64, inputs_intact }
                    };
                    records.push(rec);
                    shared2.point(tid, "end");
                }
                hooks::set_ctx(None);
                shared2.finish(tid);
                records
            })
            .expect("spawn client thread");
        handles.push(Some(h));
    }

    // hand out the baton for the first time and wait for completion
    let mut stalled = None;
    {
        let mut st = shared.m.lock().unwrap();
        if st.alive.iter().any(|a| *a) {
            let alive = st.alive.clone();
            let next = st.chooser.choose(MAIN, &alive, 0);
            st.choices.push(next as u8);
            st.il.str("begin");
            st.il.u64(next as u64);
            st.current = next;
            shared.cvs[next].notify_one();
            let mut last_steps = st.steps;
            drop(st);
            // Supervisor. poll() with a relative, kernel-measured timeout: no clock is read.
            let tick_ms = 2;
            let mut idle_ticks: u64 = 0;
            let mut asleep_ticks: u64 = 0;
            loop {
                let mut pfd = libc::pollfd { fd: shared.done_r, events: libc::POLLIN, revents: 0 };
                let r = unsafe { libc::poll(&mut pfd, 1, tick_ms) };
                if r > 0 {
                    break;
                }
                if r < 0 {
                    continue;
                }
                let mut st = shared.m.lock().unwrap();
                if st.steps != last_steps {
                    last_steps = st.steps;
                    idle_ticks = 0;
                    asleep_ticks = 0;
                    continue;
                }
                idle_ticks += 1;
                let cur = st.current;
                if cur == NOBODY {
                    let mask = runnable_mask(&st);
                    if mask.iter().any(|r| *r) {
                        // a blocked thread was released by a timeout of its own and is parked again
                        let decision = st.choices.len() as u64;
                        let next = st.chooser.choose(MAIN, &mask, decision);
                        st.choices.push(next as u8);
                        st.il.str("resume");
                        st.il.u64(next as u64);
                        st.current = next;
                        shared.cvs[next].notify_one();
                        idle_ticks = 0;
                        asleep_ticks = 0;
                        continue;
                    }
                    drop(st);
                    let all_in_futex = all_other_tasks_asleep();
                    st = shared.m.lock().unwrap();
                    if st.current != NOBODY {
                        continue;
                    }
                    if all_in_futex {
                        asleep_ticks += 1;
                    } else {
                        asleep_ticks = 0;
                    }
                    if asleep_ticks * tick_ms as u64 >= 1500 {
                        let who: Vec<usize> = (0..st.alive.len()).filter(|t| st.alive[*t]).collect();
                        st.deadlock = Some(format!("live threads {:?} all sleep in futex waits and nobody is left to release them", who));
                        break;
                    }
                    if idle_ticks * tick_ms as u64 >= spec.watchdog.as_millis() as u64 {
                        stalled = Some("no runnable thread and no progress, but the blocked threads are not in futex waits".to_string());
                        break;
                    }
                    continue;
                }
                // look at the kernel state of the baton holder without holding the state lock (the
                // holder may itself be queueing for that lock, which also looks like a futex wait)
                // The holder counts as blocked only in a state that cannot change by itself: it and every
                // other live client thread sleep in futex waits (the others parked, the holder on
                // something one of them holds). If any of them is runnable - e.g. the previous holder was
                // descheduled while still holding the state lock during the hand-over - nothing is concluded.
                let started = (0..st.alive.len()).filter(|t| st.alive[*t]).all(|t| st.ktids[t] > 0);
                drop(st);
                let asleep = cur != MAIN && started && all_other_tasks_asleep();
                st = shared.m.lock().unwrap();
                if st.steps != last_steps || st.current != cur {
                    last_steps = st.steps;
                    idle_ticks = 0;
                    asleep_ticks = 0;
                    continue;
                }
                if asleep {
                    asleep_ticks += 1;
                } else {
                    asleep_ticks = 0;
                }
                if cur != MAIN && asleep_ticks >= 3 {
                    // Every live thread slept in a futex wait at three consecutive ticks and no scheduling
                    // point was passed: the holder waits for something a parked thread holds. Pass it over.
                    st.blocked[cur] = true;
                    st.blocked_events += 1;
                    st.ev.u64(cur as u64);
                    st.ev.str("blocked");
                    let mask = runnable_mask(&st);
                    if !mask.iter().any(|r| *r) {
                        st.current = NOBODY;
                        idle_ticks = 0;
                        asleep_ticks = 0;
                        continue;
                    }
                    let decision = st.choices.len() as u64;
                    let next = st.chooser.choose(MAIN, &mask, decision);
                    st.choices.push(next as u8);
                    st.il.u64(cur as u64);
                    st.il.str("blocked");
                    st.il.u64(next as u64);
                    st.current = next;
                    shared.cvs[next].notify_one();
                    idle_ticks = 0;
                    asleep_ticks = 0;
                    continue;
                }
                if idle_ticks * tick_ms as u64 >= spec.watchdog.as_millis() as u64 {
                    stalled = Some(format!(
                        "no scheduling point reached for {:?} (thread {} holds the baton at step {} and is not asleep): a call spins or does not terminate",
                        spec.watchdog, st.current, st.steps
                    ));
                    break;
                }
            }
        }
    }
    {
        let st = shared.m.lock().unwrap();
        if let Some(d) = &st.deadlock {
            stalled = Some(format!("DEADLOCK: {}", d));
        }
    }
    if let Some(msg) = stalled {
        // Threads may be stuck for good; we cannot join them. The caller turns this into a harness error.
        let st = shared.m.lock().unwrap();
        return RunOutput {
            calls: vec![Vec::new(); n],
            stream: st.stream.clone(),
            choices: st.choices.clone(),
            steps: st.steps,
            switches: st.switches,
            switches_in_call: st.switches_in_call,
            event_hash: st.ev.0,
            interleaving_hash: st.il.0,
            capped: st.capped,
            probes: { let mut p = st.probes.clone(); p.lock_blocked_threads_passed_over = st.blocked_events; p },
            cells: st.cells.clone(),
            stalled: Some(msg),
        };
    }
    let mut calls = Vec::with_capacity(n);
    for h in handles {
        match h {
            Some(h) => calls.push(h.join().expect("client thread must not die")),
            None => calls.push(Vec::new()),
        }
    }
    let st = shared.m.lock().unwrap();
    RunOutput {
        calls,
        stream: st.stream.clone(),
        choices: st.choices.clone(),
        steps: st.steps,
        switches: st.switches,
        switches_in_call: st.switches_in_call,
        event_hash: st.ev.0,
        interleaving_hash: st.il.0,
        capped: st.capped,
        probes: { let mut p = st.probes.clone(); p.lock_blocked_threads_passed_over = st.blocked_events; p },
        cells: st.cells.clone(),
        stalled: None,
    }
}
