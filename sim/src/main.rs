fn main() {
    jsonlogic_rs::verif::install(None, None);
    println!("{:?}", jsonlogic_rs::apply(&serde_json::json!({"log":[1]}), &serde_json::Value::Null));
}
