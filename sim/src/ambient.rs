//! Ambient inputs a pure function must not depend on: environment variables, working directory,
//! wall clock, OS randomness. A run's child process applies its drawn ambient before any client
//! thread exists; the isolation oracle always runs under the default ambient.

use serde_json::{json, Value};

use crate::prng::Rng;

#[derive(Clone, Debug, Default, PartialEq)]
pub struct Ambient {
    pub env: Vec<(String, String)>,
    pub cwd: Option<String>,
    /// seconds added to every clock reading (via the preloaded shim, if present)
    pub clock_offset_s: i64,
    /// additionally jump the clock by this many seconds at every reading
    pub clock_step_s: i64,
    /// make getrandom() return a seeded stream instead of OS entropy
    pub rand_seed: Option<u64>,
}

const ENVS: &[(&str, &[&str])] = &[
    ("TZ", &["UTC", "America/New_York", "Asia/Kolkata", "Pacific/Chatham"]),
    ("LANG", &["C", "de_DE.UTF-8", "tr_TR.UTF-8", "ja_JP.eucJP"]),
    ("LC_ALL", &["C", "de_DE.UTF-8", "tr_TR.UTF-8"]),
    ("LC_NUMERIC", &["de_DE.UTF-8", "fr_FR.UTF-8"]),
    ("HOME", &["/nonexistent", "/"]),
    ("JSONLOGIC_STRICT", &["1", "0"]),
    ("JSONLOGIC_DEBUG", &["1"]),
    ("JSONLOGIC_CACHE", &["1", "0", "off"]),
    ("RUST_LOG", &["trace"]),
    ("RUST_MIN_STACK", &["4194304"]),
    ("NO_COLOR", &["1"]),
    ("TERM", &["dumb", "xterm-256color"]),
    ("USER", &["nobody"]),
    ("TMPDIR", &["/nonexistent"]),
];

impl Ambient {
    pub fn is_default(&self) -> bool {
        *self == Ambient::default()
    }

    pub fn draw(rng: &mut Rng) -> Ambient {
        let mut a = Ambient::default();
        if rng.chance(1, 2) {
            return a;
        }
        let n = rng.range(1, 4);
        for _ in 0..n {
            let (k, vals) = rng.pick(ENVS);
            let v = *rng.pick(vals);
            if !a.env.iter().any(|(kk, _)| kk == k) {
                a.env.push((k.to_string(), v.to_string()));
            }
        }
        if rng.chance(1, 3) {
            a.cwd = Some((*rng.pick(&["/", "/tmp", "/proc", "/usr"])).to_string());
        }
        if rng.chance(1, 2) {
            a.clock_offset_s = *rng.pick(&[-1_600_000_000i64, 1_000_000_000, 400_000_000, -86_400, 3_600, 253_402_300_800]);
        }
        if rng.chance(1, 4) {
            a.clock_step_s = *rng.pick(&[1i64, 86_400, -3_600, 31_536_000]);
        }
        if rng.chance(1, 2) {
            a.rand_seed = Some(rng.next_u64());
        }
        a
    }

    pub fn to_json(&self) -> Value {
        json!({
            "env": self.env.iter().map(|(k, v)| json!([k, v])).collect::<Vec<_>>(),
            "cwd": self.cwd,
            "clock_offset_s": self.clock_offset_s,
            "clock_step_s": self.clock_step_s,
            "rand_seed": self.rand_seed.map(|s| format!("{:016x}", s)),
        })
    }

    pub fn from_json(v: &Value) -> Option<Ambient> {
        let mut a = Ambient::default();
        if let Some(env) = v.get("env").and_then(|e| e.as_array()) {
            for kv in env {
                a.env.push((kv.get(0)?.as_str()?.to_string(), kv.get(1)?.as_str()?.to_string()));
            }
        }
        a.cwd = v.get("cwd").and_then(|c| c.as_str()).map(String::from);
        a.clock_offset_s = v.get("clock_offset_s").and_then(|c| c.as_i64()).unwrap_or(0);
        a.clock_step_s = v.get("clock_step_s").and_then(|c| c.as_i64()).unwrap_or(0);
        a.rand_seed = v.get("rand_seed").and_then(|c| c.as_str()).and_then(|s| u64::from_str_radix(s, 16).ok());
        Some(a)
    }

    /// Whether the preloaded interposer (clock / randomness) is present in this process.
    pub fn shim_present() -> bool {
        let name = std::ffi::CString::new("simio_ambient").unwrap();
        !unsafe { libc::dlsym(libc::RTLD_DEFAULT, name.as_ptr()) }.is_null()
    }

    /// Apply to the current process. Only called in a freshly forked, single-threaded child.
    pub fn apply(&self) {
        for (k, v) in &self.env {
            std::env::set_var(k, v);
        }
        if let Some(d) = &self.cwd {
            let _ = std::env::set_current_dir(d);
        }
        let name = std::ffi::CString::new("simio_ambient").unwrap();
        let sym = unsafe { libc::dlsym(libc::RTLD_DEFAULT, name.as_ptr()) };
        if !sym.is_null() {
            let f: extern "C" fn(i64, i64, i32, u64) = unsafe { std::mem::transmute(sym) };
            // OS randomness is always a seeded stream inside a simulated run (never real entropy), so a
            // run whose result depends on it still replays exactly
            f(self.clock_offset_s, self.clock_step_s, 1, self.rand_seed.unwrap_or(0x5eed_0003));
        }
    }
}
