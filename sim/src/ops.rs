//! Operations the simulated clients issue against the library, and how one is executed.
//!
//! An operation is identified by its *content* (kind + JSON texts of its operands), so it can
//! be shipped to the isolation oracle, written to a replay file, and hashed.

use serde_json::{json, Value};
use std::panic::{catch_unwind, AssertUnwindSafe};
use std::sync::Arc;

use crate::hooks;

#[derive(Clone, Debug, PartialEq, Eq, Hash, PartialOrd, Ord)]
pub struct Op {
    /// "apply" or "js:<helper name>"
    pub kind: String,
    /// JSON texts. apply: [rule, data]. helpers: their operands (an operand list for the n-ary ones).
    pub args: Vec<String>,
    /// true: parse the operands into new Values right before the call and drop them right after
    /// (exercises address reuse); false: use the run's shared pool (`Arc<Value>` shared by all threads).
    pub fresh: bool,
    /// two-operand helpers only: pass the *same reference* as both operands (`f(&v, &v)`). Aliasing
    /// is part of what the caller does, so it is part of the operation's identity. Without it the
    /// two operands are always distinct objects, even when their texts are equal.
    pub alias: bool,
}

impl Op {
    pub fn apply(rule: &str, data: &str, fresh: bool) -> Op {
        Op { kind: "apply".into(), args: vec![rule.into(), data.into()], fresh, alias: false }
    }
    pub fn helper(name: &str, args: Vec<String>, fresh: bool) -> Op {
        Op { kind: format!("js:{}", name), args, fresh, alias: false }
    }
    /// Content key: independent of `fresh` (an isolated result cannot depend on it).
    pub fn key(&self) -> String {
        let mut k = self.kind.clone();
        if self.alias {
            k.push_str("\u{1}alias");
        }
        for a in &self.args {
            k.push('\u{1}');
            k.push_str(a);
        }
        k
    }
    pub fn to_json(&self) -> Value {
        json!({"kind": self.kind, "args": self.args, "fresh": self.fresh, "alias": self.alias})
    }
    pub fn from_json(v: &Value) -> Option<Op> {
        Some(Op {
            kind: v.get("kind")?.as_str()?.to_string(),
            args: v.get("args")?.as_array()?.iter().map(|a| a.as_str().map(String::from)).collect::<Option<Vec<_>>>()?,
            fresh: v.get("fresh").and_then(|f| f.as_bool()).unwrap_or(false),
            alias: v.get("alias").and_then(|f| f.as_bool()).unwrap_or(false),
        })
    }
    pub fn is_apply(&self) -> bool {
        self.kind == "apply"
    }
    pub fn short(&self) -> String {
        let mut s = format!("{}{}({})", self.kind, if self.alias { "[same reference twice]" } else { "" }, self.args.join(" ; "));
        if s.len() > 300 {
            let mut cut = 300;
            while !s.is_char_boundary(cut) {
                cut -= 1;
            }
            s.truncate(cut);
            s.push_str("…");
        }
        s
    }
}

#[derive(Clone, Debug, PartialEq, Eq)]
pub enum Res {
    Ok(String),
    Err(String),
    /// unwound with this message
    Panic(String),
    /// only from the isolation oracle: the isolated process died / did not finish
    Crash(String),
}

impl Res {
    pub fn to_json(&self) -> Value {
        match self {
            Res::Ok(s) => json!({"ok": s}),
            Res::Err(s) => json!({"err": s}),
            Res::Panic(s) => json!({"panic": s}),
            Res::Crash(s) => json!({"crash": s}),
        }
    }
    pub fn from_json(v: &Value) -> Option<Res> {
        let o = v.as_object()?;
        let (k, val) = o.iter().next()?;
        let s = val.as_str()?.to_string();
        Some(match k.as_str() {
            "ok" => Res::Ok(s),
            "err" => Res::Err(s),
            "panic" => Res::Panic(s),
            "crash" => Res::Crash(s),
            _ => return None,
        })
    }
    pub fn is_panic(&self) -> bool {
        matches!(self, Res::Panic(_) | Res::Crash(_))
    }
    pub fn tag(&self) -> &'static str {
        match self {
            Res::Ok(_) => "ok",
            Res::Err(_) => "err",
            Res::Panic(_) => "panic",
            Res::Crash(_) => "crash",
        }
    }
}

pub const HELPERS_1: &[&str] = &["to_string", "str_to_number", "to_number", "to_negative", "parse_float"];
pub const HELPERS_2: &[&str] = &[
    "abstract_eq", "abstract_ne", "strict_eq", "strict_ne", "abstract_lt", "abstract_gt", "abstract_lte", "abstract_gte",
    "abstract_plus", "abstract_minus", "abstract_div", "abstract_mod",
];
pub const HELPERS_N: &[&str] = &["abstract_max", "abstract_min", "parse_float_add", "parse_float_mul"];

fn f64_text(f: f64) -> String {
    format!("{:?}", f)
}
fn opt_f64_text(f: Option<f64>) -> String {
    match f {
        Some(x) => format!("Some({:?})", x),
        None => "None".into(),
    }
}

/// Operand provider: shared pool or fresh parse.
pub trait Pool: Sync {
    /// Shared operand for argument position `pos` with this text. Positions have separate pools,
    /// so two operands of one call never alias by accident.
    fn get(&self, pos: usize, text: &str) -> Option<Arc<Value>>;
}

fn operand(pool: &dyn Pool, op: &Op, i: usize) -> Arc<Value> {
    let text = &op.args[i];
    if !op.fresh {
        if let Some(v) = pool.get(i, text) {
            return v;
        }
    }
    // A text that does not parse cannot be generated by the E1 generators; the replay reader checks.
    Arc::new(serde_json::from_str::<Value>(text).expect("operand text must be valid JSON"))
}

fn call(pool: &dyn Pool, op: &Op) -> Res {
    use jsonlogic_rs::js_op as j;
    let name = op.kind.as_str();
    if name == "apply" {
        let rule = operand(pool, op, 0);
        let data = operand(pool, op, 1);
        // freshly parsed operands are gone after the call: check here that the call left them alone
        let watch = op.fresh && rule.to_string() == op.args[0] && data.to_string() == op.args[1];
        let r = match jsonlogic_rs::apply(&rule, &data) {
            Ok(v) => Res::Ok(v.to_string()),
            Err(e) => Res::Err(e.to_string()),
        };
        if watch && (rule.to_string() != op.args[0] || data.to_string() != op.args[1]) {
            hooks::set_input_modified();
        }
        return r;
    }
    let h = &name[3..];
    if HELPERS_1.contains(&h) {
        let a = operand(pool, op, 0);
        return match h {
            "to_string" => Res::Ok(j::to_string(&a)),
            "str_to_number" => Res::Ok(opt_f64_text(match &*a {
                Value::String(s) => j::str_to_number(s),
                other => j::str_to_number(j::to_string(other)),
            })),
            "to_number" => Res::Ok(opt_f64_text(j::to_number(&a))),
            "parse_float" => Res::Ok(opt_f64_text(j::parse_float(&a))),
            "to_negative" => match j::to_negative(&a) {
                Ok(f) => Res::Ok(f64_text(f)),
                Err(e) => Res::Err(e.to_string()),
            },
            _ => unreachable!(),
        };
    }
    if HELPERS_2.contains(&h) {
        let a = operand(pool, op, 0);
        let b = if op.alias { a.clone() } else { operand(pool, op, 1) };
        return match h {
            "abstract_eq" => Res::Ok(j::abstract_eq(&a, &b).to_string()),
            "abstract_ne" => Res::Ok(j::abstract_ne(&a, &b).to_string()),
            "strict_eq" => Res::Ok(j::strict_eq(&a, &b).to_string()),
            "strict_ne" => Res::Ok(j::strict_ne(&a, &b).to_string()),
            "abstract_lt" => Res::Ok(j::abstract_lt(&a, &b).to_string()),
            "abstract_gt" => Res::Ok(j::abstract_gt(&a, &b).to_string()),
            "abstract_lte" => Res::Ok(j::abstract_lte(&a, &b).to_string()),
            "abstract_gte" => Res::Ok(j::abstract_gte(&a, &b).to_string()),
            "abstract_plus" => Res::Ok(j::abstract_plus(&a, &b).to_string()),
            "abstract_minus" => fr(j::abstract_minus(&a, &b)),
            "abstract_div" => fr(j::abstract_div(&a, &b)),
            "abstract_mod" => fr(j::abstract_mod(&a, &b)),
            _ => unreachable!(),
        };
    }
    if HELPERS_N.contains(&h) {
        let list = operand(pool, op, 0);
        let items: Vec<&Value> = match &*list {
            Value::Array(xs) => xs.iter().collect(),
            other => vec![other],
        };
        let r = match h {
            "abstract_max" => j::abstract_max(&items),
            "abstract_min" => j::abstract_min(&items),
            "parse_float_add" => j::parse_float_add(&items),
            "parse_float_mul" => j::parse_float_mul(&items),
            _ => unreachable!(),
        };
        return match r {
            Ok(f) => Res::Ok(f64_text(f)),
            Err(e) => Res::Err(e.to_string()),
        };
    }
    Res::Err(format!("harness: unknown operation kind {}", name))
}

fn fr<E: std::fmt::Display>(r: Result<f64, E>) -> Res {
    match r {
        Ok(f) => Res::Ok(f64_text(f)),
        Err(e) => Res::Err(e.to_string()),
    }
}

/// Execute one operation on the calling thread, catching an unwind.
pub fn exec(pool: &dyn Pool, op: &Op) -> Res {
    hooks::clear_last_panic();
    match catch_unwind(AssertUnwindSafe(|| call(pool, op))) {
        Ok(r) => r,
        Err(payload) => {
            let msg = if let Some(s) = payload.downcast_ref::<&str>() {
                s.to_string()
            } else if let Some(s) = payload.downcast_ref::<String>() {
                s.clone()
            } else {
                "non-string panic payload".to_string()
            };
            let loc = hooks::take_last_panic_location();
            Res::Panic(match loc {
                Some(l) => format!("{} @ {}", msg, l),
                None => msg,
            })
        }
    }
}
