//! jlsim — deterministic simulation workers for json-logic-rs.
//!
//!   jlsim e1 --seed S --tier quick|thorough --worker w --workers W --seconds N [--max-runs M] --out FILE --replay-dir DIR
//!   jlsim e2 ...                     (process-boundary engine, see e2.rs)
//!   jlsim replay FILE                re-execute a replay file in this fresh process; exit 1 if it still fails
//!   jlsim distinct FILE...           count distinct u64s over sorted binary files
//!
//! Exit codes: 0 ok, 1 violation (only `replay`), 2 harness error.

mod ambient;
mod e1;
mod e2;
mod e5;
mod gen;
mod hooks;
mod ops;
mod oracle;
mod prng;
mod sched;
mod shrink;

use serde_json::{json, Value};
use std::collections::{BTreeMap, BTreeSet};

#[global_allocator]
static GLOBAL: hooks::SimAlloc = hooks::SimAlloc;
use std::sync::atomic::Ordering;
use std::time::Instant;

pub struct Args {
    map: BTreeMap<String, String>,
    pub pos: Vec<String>,
}
impl Args {
    fn parse(argv: &[String]) -> Args {
        let mut map = BTreeMap::new();
        let mut pos = Vec::new();
        let mut i = 0;
        while i < argv.len() {
            if let Some(k) = argv[i].strip_prefix("--") {
                if i + 1 < argv.len() && !argv[i + 1].starts_with("--") {
                    map.insert(k.to_string(), argv[i + 1].clone());
                    i += 2;
                } else {
                    map.insert(k.to_string(), "1".into());
                    i += 1;
                }
            } else {
                pos.push(argv[i].clone());
                i += 1;
            }
        }
        Args { map, pos }
    }
    pub fn u64(&self, k: &str, d: u64) -> u64 {
        self.map.get(k).and_then(|v| v.parse().ok()).unwrap_or(d)
    }
    pub fn f64(&self, k: &str, d: f64) -> f64 {
        self.map.get(k).and_then(|v| v.parse().ok()).unwrap_or(d)
    }
    pub fn str(&self, k: &str, d: &str) -> String {
        self.map.get(k).cloned().unwrap_or_else(|| d.to_string())
    }
    pub fn has(&self, k: &str) -> bool {
        self.map.contains_key(k)
    }
}

pub fn tier_id(t: &str) -> u64 {
    if t == "thorough" {
        2
    } else {
        1
    }
}

pub fn save_diag_fd() {
    let fd = unsafe { libc::fcntl(2, libc::F_DUPFD_CLOEXEC, 100) };
    if fd >= 0 {
        hooks::DIAG_FD.store(fd, Ordering::Relaxed);
    }
}

fn bump(m: &mut BTreeMap<String, u64>, k: &str, by: u64) {
    *m.entry(k.to_string()).or_insert(0) += by;
}

fn e1_main(a: &Args) -> i32 {
    let seed = a.u64("seed", 1);
    let tier = a.str("tier", "quick");
    let worker = a.u64("worker", 0);
    let workers = a.u64("workers", 1).max(1);
    let seconds = a.f64("seconds", 10.0);
    let max_runs = a.u64("max-runs", u64::MAX);
    let first = a.u64("first-run", 0);
    let out_path = a.str("out", "/dev/stdout");
    let replay_dir = a.str("replay-dir", ".");
    let det_every = a.u64("determinism-every", 0);
    let max_shrunk = a.u64("max-shrunk", 3);
    let max_violations = a.u64("max-violations", 6) as usize;
    let sweep_every = a.u64("sweep-every", 0);
    let mut extra_execs = 0u64;
    let started = Instant::now();

    save_diag_fd();
    hooks::install();
    let mut oracle = oracle::Oracle::start();
    let corpus = gen::Corpus::load();
    let params = e1::GenParams::for_tier(&tier);
    let shim = ambient::Ambient::shim_present();

    let mut runs = 0u64;
    let mut sums: BTreeMap<String, u64> = BTreeMap::new();
    let mut strategies: BTreeMap<String, u64> = BTreeMap::new();
    let mut threads_hist: BTreeMap<String, u64> = BTreeMap::new();
    let mut shapes: BTreeMap<String, u64> = BTreeMap::new();
    let mut faults: BTreeMap<String, u64> = BTreeMap::new();
    let mut probes: BTreeMap<String, u64> = BTreeMap::new();
    let mut cells: BTreeSet<String> = BTreeSet::new();
    let mut nontrivial: BTreeSet<u64> = BTreeSet::new();
    let mut violations: Vec<Value> = Vec::new();
    let mut seen_sigs: BTreeSet<String> = BTreeSet::new();
    let mut harness_errors: Vec<String> = Vec::new();
    let mut samples: Vec<Value> = Vec::new();
    let mut det_checked = 0u64;
    let mut det_mismatch = 0u64;
    let mut shrunk = 0u64;
    let dump_hashes = a.has("dump-hashes");
    let mut hashes: BTreeMap<String, String> = BTreeMap::new();

    let mut i = first + worker;
    while runs < max_runs && (started.elapsed().as_secs_f64() < seconds || runs == 0) && violations.len() < max_violations {
        // a hang costs seconds per occurrence: one is enough to report
        if violations.iter().any(|v| v.get("class").and_then(|c| c.as_str()) == Some("hang")) {
            break;
        }
        let run_seed = prng::mix(seed, &[tier_id(&tier), 1, i]);
        let t0 = Instant::now();
        // the first runs of every batch are the systematic sweep of extreme operand pairs
        let run = if i < e1::extremes_sweep_runs() { e1::extremes_sweep_run(i) } else { e1::gen_run(run_seed, &params, &corpus, &mut oracle) };
        let t1 = Instant::now();
        let (isos, mut found) = e1::isolate(&run, &mut oracle);
        let (run2, isos2) = e1::without_crashers(&run, &isos);
        let t2 = Instant::now();
        let rep = if run2.total_ops() > 0 { e1::exec_in_child(&run2, &isos2) } else { e1::RunReport::default() };
        let t3 = Instant::now();
        bump(&mut sums, "us_generate_incl_oracle", (t1 - t0).as_micros() as u64);
        bump(&mut sums, "us_isolate", (t2 - t1).as_micros() as u64);
        bump(&mut sums, "us_execute", (t3 - t2).as_micros() as u64);
        if let Some(msg) = &rep.stalled {
            harness_errors.push(format!("run {} (seed {:016x}): {}", i, run_seed, msg));
            if harness_errors.len() == 1 {
                hooks::diag(&format!("jlsim e1: stalled run: {}", msg));
                e1::diag_run(&run2);
            }
            break;
        }
        found.extend(rep.violations.iter().cloned());
        let mut orng = prng::Rng::new(prng::mix(run_seed, &[0x0_7ac1e]));
        let (ov, on) = e1::oracle_level_checks(&run2, &mut orng, &mut oracle);
        found.extend(ov);
        bump(&mut sums, "oracle_level_checks", on);

        // determinism self-check: same description, executed again, and replayed from its recorded choices
        let lock_holding = rep.probes.get("lock_blocked_thread_passed_over").copied().unwrap_or(0) > 0;
        if det_every > 0 && runs % det_every == 0 && run2.total_ops() > 0 && rep.crashed.is_none() && lock_holding {
            // code that keeps a lock across scheduling points leaves a window of real concurrency after
            // each unlock (DESIGN.md s7): such runs are executed, judged and reported, but they are not
            // part of the determinism self-check
            bump(&mut sums, "determinism_selfcheck_skipped_lock_holding_runs", 1);
        }
        if det_every > 0 && runs % det_every == 0 && run2.total_ops() > 0 && rep.crashed.is_none() && !lock_holding {
            det_checked += 1;
            let again = e1::exec_in_child(&run2, &isos2);
            let mut replayed_run = run2.clone();
            replayed_run.schedule = Some(rep.choices.clone());
            let replayed = e1::exec_in_child(&replayed_run, &isos2);
            if again.event_hash != rep.event_hash || replayed.event_hash != rep.event_hash {
                det_mismatch += 1;
                harness_errors.push(format!(
                    "determinism: run {} (seed {:016x}) event hashes {:016x} / again {:016x} / replayed {:016x}",
                    i, run_seed, rep.event_hash, again.event_hash, replayed.event_hash
                ));
            }
        }

        if dump_hashes {
            hashes.insert(i.to_string(), format!("{:016x}", rep.event_hash));
        }
        // statistics
        runs += 1;
        bump(&mut sums, "steps", rep.steps);
        bump(&mut sums, "switches", rep.switches);
        bump(&mut sums, "switches_in_call", rep.switches_in_call);
        bump(&mut sums, "calls", rep.calls);
        bump(&mut sums, "calls_ok", rep.calls_ok);
        bump(&mut sums, "calls_err", rep.calls_err);
        bump(&mut sums, "calls_injected", rep.calls_injected);
        bump(&mut sums, "emits", rep.emits);
        bump(&mut sums, "capped_runs", rep.capped as u64);
        bump(&mut strategies, run2.strategy.name(), 1);
        bump(&mut threads_hist, &run2.threads.len().to_string(), 1);
        for s in run2.shape.split('+') {
            bump(&mut shapes, s, 1);
        }
        for (k, v) in &rep.probes {
            if k.ends_with("_max") {
                let e = probes.entry(k.clone()).or_insert(0);
                *e = (*e).max(*v);
                if *v >= 2 {
                    bump(&mut probes, "runs_with_two_or_more_threads_deep_in_recursion", 1);
                }
            } else {
                bump(&mut probes, k, *v);
            }
        }
        bump(&mut faults, "emit-fails", *rep.probes.get("emit_fault_fired").unwrap_or(&0));
        if run2.total_ops() > 0 {
            bump(&mut faults, "preemption-inside-a-call", rep.switches_in_call);
            if !run2.ambient.env.is_empty() {
                bump(&mut faults, "ambient-env-vars", 1);
            }
            if run2.ambient.cwd.is_some() {
                bump(&mut faults, "ambient-cwd", 1);
            }
            if shim && (run2.ambient.clock_offset_s != 0 || run2.ambient.clock_step_s != 0) {
                bump(&mut faults, "ambient-clock-skew-or-jump", 1);
            }
            if shim && run2.ambient.rand_seed.is_some() {
                bump(&mut faults, "ambient-seeded-os-randomness", 1);
            }
            if run2.stack_kb.iter().any(|s| *s != 2048) {
                bump(&mut faults, "caller-stack-8MiB", 1);
            }
            if run2.threads.iter().flatten().any(|o| o.fresh) {
                bump(&mut faults, "operand-address-reuse", 1);
            }
            if run2.alloc_yield {
                bump(&mut faults, "runs-with-preemption-at-allocator-calls", 1);
            }
            if run2.tid_offset > 0 {
                bump(&mut faults, "caller-thread-ids-shifted", 1);
            }
        }
        for c in rep.cells.iter() {
            if cells.len() < 20000 {
                cells.insert(c.clone());
            }
        }
        let nontriv = (run2.threads.len() >= 2 && rep.switches_in_call >= 1) || rep.calls_injected >= 1 || (run2.threads.len() == 1 && rep.calls >= 2);
        if nontriv {
            let mut h = prng::Hasher::new();
            for tl in &run2.threads {
                for op in tl {
                    h.str(&op.key());
                    h.u64(op.fresh as u64);
                }
                h.str("|");
            }
            h.u64(rep.interleaving_hash);
            if let Some(f) = &run2.fault {
                h.u64(f.thread as u64 * 1000 + f.op as u64);
                h.u64(f.emit);
            }
            nontrivial.insert(h.0);
        }
        if samples.len() < 3 && run2.threads.len() >= 2 && rep.switches_in_call >= 1 && rep.choices.len() <= 160 {
            let mut r = run2.clone();
            r.schedule = Some(rep.choices.clone());
            samples.push(r.to_json());
        }

        // systematic single-preemption sweep over a sampled multi-thread run: every (victim, point, other)
        let mut batch: Vec<(e1::E1Run, e1::E1Run, e1::RunReport, Vec<e1::Violation>)> = Vec::new();
        if sweep_every > 0 && runs % sweep_every == 0 && run2.threads.len() >= 2 && rep.crashed.is_none() && rep.steps <= 400 && run2.total_ops() > 0 {
            bump(&mut sums, "one_preempt_sweeps", 1);
            let n = run2.threads.len();
            for victim in 0..n {
                let vsteps: u64 = isos2[victim].iter().map(|i| i.steps + 2).sum();
                for other in 0..n {
                    if other == victim || run2.threads[other].is_empty() {
                        continue;
                    }
                    let mut order: Vec<u8> = vec![victim as u8, other as u8];
                    order.extend((0..n as u8).filter(|t| *t as usize != victim && *t as usize != other));
                    let stride = (vsteps / 120).max(1);
                    let mut k = 0;
                    while k < vsteps {
                        let mut variant = run2.clone();
                        variant.strategy = sched::Strategy::OnePreempt { order: order.clone(), k };
                        variant.schedule = None;
                        variant.fault = None;
                        let r = e1::exec_in_child(&variant, &isos2);
                        bump(&mut sums, "one_preempt_sweep_schedules", 1);
                        extra_execs += 1;
                        bump(&mut sums, "steps", r.steps);
                        bump(&mut sums, "switches_in_call", r.switches_in_call);
                        if r.switches_in_call >= 1 {
                            let mut h = prng::Hasher::new();
                            h.u64(run_seed);
                            h.u64(r.interleaving_hash);
                            nontrivial.insert(h.0);
                        }
                        if !r.violations.is_empty() {
                            let f = r.violations.clone();
                            batch.push((variant.clone(), variant, r, f));
                        }
                        k += stride;
                    }
                }
            }
        }
        // the run asked for environment variables the generator does not know: make them a fault
        if !rep.env_reads.is_empty() && rep.crashed.is_none() {
            for name in rep.env_reads.iter().take(4) {
                for val in ["1", "0", "strict"] {
                    let mut variant = run2.clone();
                    variant.ambient.env.retain(|(k, _)| k != name);
                    variant.ambient.env.push((name.clone(), val.to_string()));
                    variant.schedule = Some(rep.choices.clone());
                    let r = e1::exec_in_child(&variant, &isos2);
                    extra_execs += 1;
                    bump(&mut faults, "ambient-env-var-discovered-by-getenv", 1);
                    if !r.violations.is_empty() {
                        let f = r.violations.clone();
                        batch.push((variant.clone(), variant, r, f));
                    }
                }
            }
        }
        batch.insert(0, (run.clone(), run2.clone(), rep.clone(), found));
        // violations: minimise and persist the first few distinct ones
        for (run, run2, rep, found) in batch {
        for v in found {
            let sig = v.signature();
            let first_of_kind = seen_sigs.insert(sig.clone());
            if !first_of_kind {
                continue;
            }
            // operations whose isolated evaluation kills or hangs the process were left out of the
            // executed run (run2); the violation about them is reproduced from the full description
            let base = if v.needs == "input-only" && v.property == "C01" { &run } else { &run2 };
            let oracle_level = v.needs == "input-only" && v.property == "C17" && v.op.is_some();
            let (min_run, min_v, execs) = if oracle_level {
                // one operation, no schedule: minimise the operation against the clause that failed
                let (vv, n) = shrink::shrink_oracle_level(&v, &mut oracle, 150);
                let mut r = run2.clone();
                r.threads = vec![vec![vv.op.clone().unwrap()]];
                r.stack_kb = vec![2048];
                r.fault = None;
                r.schedule = Some(Vec::new());
                r.strategy = sched::Strategy::Sequential(vec![0]);
                r.ambient = ambient::Ambient::default();
                (r, vv, n)
            } else if shrunk < max_shrunk && rep.crashed.is_none() && started.elapsed().as_secs_f64() < seconds + 45.0 {
                shrunk += 1;
                let mut sh = shrink::Shrinker { oracle: &mut oracle, budget: 400, executions: 0, deadline: Instant::now() + std::time::Duration::from_secs(20) };
                let (r, vv) = sh.shrink(base, &rep.choices, &v);
                (r, vv, sh.executions)
            } else {
                let mut r = base.clone();
                r.schedule = Some(rep.choices.clone());
                (r, v.clone(), 0)
            };
            let name = format!("{}-e1-{:016x}-{}.json", min_v.property, run_seed, violations.len());
            let path = format!("{}/{}", replay_dir, name);
            let doc = json!({
                "engine": "e1",
                "property": min_v.property,
                "violation": min_v.to_json(),
                "original_violation": v.to_json(),
                "verif_seed": seed, "tier": tier, "run_index": i,
                "shrink_executions": execs,
                "run": min_run.to_json(),
            });
            let _ = std::fs::write(&path, serde_json::to_string_pretty(&doc).unwrap());
            violations.push(json!({"property": min_v.property, "class": min_v.class, "signature": min_v.signature(), "needs": min_v.needs,
                                   "replay": path, "summary": format!("{} -> expected {} got {}", min_v.op.as_ref().map(|o| o.short()).unwrap_or_default(), min_v.expected, min_v.got)}));
        }
        }
        i += workers;
    }

    // distinct non-trivial executions: sorted u64 file for the orchestrator to merge
    let nt_path = format!("{}.nontrivial", out_path);
    let mut bytes = Vec::with_capacity(nontrivial.len() * 8);
    for h in &nontrivial {
        bytes.extend_from_slice(&h.to_le_bytes());
    }
    let _ = std::fs::write(&nt_path, bytes);

    let summary = json!({
        "engine": "e1", "worker": worker, "runs": runs + extra_execs, "generated_runs": runs, "sums": sums, "strategies": strategies, "threads": threads_hist,
        "shapes": shapes, "faults_fired": faults, "probes": probes, "cells": cells.iter().collect::<Vec<_>>(),
        "determinism": {"checked": det_checked, "mismatches": det_mismatch},
        "oracle": {"forks": oracle.forks, "queries": oracle.queries, "memo": oracle.memo_len()},
        "nontrivial_file": nt_path, "nontrivial_local": nontrivial.len(),
        "violations": violations, "harness_errors": harness_errors, "samples": samples,
        "shim_present": shim, "hashes": hashes,
        "wall_s": started.elapsed().as_secs_f64(),
    });
    if std::fs::write(&out_path, serde_json::to_string(&summary).unwrap()).is_err() {
        return 2;
    }
    if !harness_errors.is_empty() {
        2
    } else {
        0
    }
}

fn replay_main(a: &Args) -> i32 {
    let path = match a.pos.get(1) {
        Some(p) => p.clone(),
        None => {
            eprintln!("usage: jlsim replay FILE");
            return 2;
        }
    };
    let doc: Value = match std::fs::read_to_string(&path).ok().and_then(|s| serde_json::from_str(&s).ok()) {
        Some(d) => d,
        None => {
            eprintln!("cannot read replay file {}", path);
            return 2;
        }
    };
    match doc.get("engine").and_then(|e| e.as_str()) {
        Some("e1") => {
            save_diag_fd();
            hooks::install();
            let mut oracle = oracle::Oracle::start();
            let run = match doc.get("run").and_then(e1::E1Run::from_json) {
                Some(r) => r,
                None => {
                    eprintln!("malformed e1 replay file");
                    return 2;
                }
            };
            let target = doc.get("violation").and_then(e1::Violation::from_json);
            let (isos, mut found) = e1::isolate(&run, &mut oracle);
            let (run2, isos2) = e1::without_crashers(&run, &isos);
            let rep = if run2.total_ops() > 0 { e1::exec_in_child(&run2, &isos2) } else { e1::RunReport::default() };
            found.extend(rep.violations.iter().cloned());
            // oracle-level violations are re-derived from the recorded operation
            if let Some(t) = &target {
                if t.needs == "input-only" && t.property == "C17" {
                    found.extend(e1::recheck_oracle_level(t, &mut oracle));
                }
            }
            let hit: Vec<&e1::Violation> = match &target {
                Some(t) => found.iter().filter(|v| v.property == t.property && v.class == t.class).collect(),
                None => found.iter().collect(),
            };
            println!("{}", json!({"replayed": path, "event_hash": format!("{:016x}", rep.event_hash), "violations": found.iter().map(|v| v.to_json()).collect::<Vec<_>>(), "reproduced": !hit.is_empty()}));
            if hit.is_empty() {
                0
            } else {
                1
            }
        }
        Some("e2") => e2::replay(&doc, a),
        _ => {
            eprintln!("unknown engine in replay file");
            2
        }
    }
}

fn distinct_main(a: &Args) -> i32 {
    let mut all: Vec<u64> = Vec::new();
    for p in &a.pos[1..] {
        if let Ok(b) = std::fs::read(p) {
            for c in b.chunks_exact(8) {
                all.push(u64::from_le_bytes(c.try_into().unwrap()));
            }
        }
    }
    all.sort_unstable();
    all.dedup();
    println!("{}", all.len());
    0
}

fn main() {
    let argv: Vec<String> = std::env::args().skip(1).collect();
    let a = Args::parse(&argv);
    let code = match a.pos.first().map(|s| s.as_str()) {
        Some("e1") => e1_main(&a),
        Some("e2") => e2::main(&a),
        Some("e5") => e5::main(&a),
        Some("e5-symbols") => {
            if e5::Symbols::write_cache(&a.str("out", "/dev/null")) {
                0
            } else {
                2
            }
        }
        Some("replay") => replay_main(&a),
        Some("distinct") => distinct_main(&a),
        _ => {
            eprintln!("usage: jlsim e1|e2|replay|distinct ...");
            2
        }
    };
    std::process::exit(code);
}
