//! SplitMix64 / xoshiro256** — the only source of randomness in the simulator.
//! Nothing here reads a clock, an address or the OS.

#[derive(Clone, Debug)]
pub struct Rng {
    s: [u64; 4],
    pub draws: u64,
}

pub fn splitmix(x: &mut u64) -> u64 {
    *x = x.wrapping_add(0x9E37_79B9_7F4A_7C15);
    let mut z = *x;
    z = (z ^ (z >> 30)).wrapping_mul(0xBF58_476D_1CE4_E5B9);
    z = (z ^ (z >> 27)).wrapping_mul(0x94D0_49BB_1331_11EB);
    z ^ (z >> 31)
}

/// Derive an independent 64-bit value from a seed and a list of labels.
pub fn mix(seed: u64, labels: &[u64]) -> u64 {
    let mut x = seed ^ 0xA076_1D64_78BD_642F;
    let mut out = splitmix(&mut x);
    for l in labels {
        x ^= l.wrapping_mul(0xE703_7ED1_A0B4_28DB);
        out ^= splitmix(&mut x).rotate_left(17);
        x = x.wrapping_add(out);
    }
    splitmix(&mut x) ^ out
}

pub fn fnv1a(bytes: &[u8]) -> u64 {
    let mut h: u64 = 0xcbf2_9ce4_8422_2325;
    for b in bytes {
        h ^= *b as u64;
        h = h.wrapping_mul(0x0000_0100_0000_01B3);
    }
    h
}

/// Incremental hash used for event logs (order-sensitive).
#[derive(Clone, Debug)]
pub struct Hasher(pub u64);
impl Hasher {
    pub fn new() -> Self {
        Hasher(0xcbf2_9ce4_8422_2325)
    }
    pub fn bytes(&mut self, b: &[u8]) {
        for x in b {
            self.0 ^= *x as u64;
            self.0 = self.0.wrapping_mul(0x0000_0100_0000_01B3);
        }
        // separator so that ("ab","c") != ("a","bc")
        self.0 ^= 0xff;
        self.0 = self.0.wrapping_mul(0x0000_0100_0000_01B3);
    }
    pub fn u64(&mut self, v: u64) {
        self.bytes(&v.to_le_bytes());
    }
    pub fn str(&mut self, s: &str) {
        self.bytes(s.as_bytes());
    }
}

impl Rng {
    pub fn new(seed: u64) -> Self {
        let mut x = seed;
        let s = [
            splitmix(&mut x),
            splitmix(&mut x),
            splitmix(&mut x),
            splitmix(&mut x),
        ];
        Rng { s, draws: 0 }
    }

    pub fn next_u64(&mut self) -> u64 {
        self.draws += 1;
        let result = self.s[1].wrapping_mul(5).rotate_left(7).wrapping_mul(9);
        let t = self.s[1] << 17;
        self.s[2] ^= self.s[0];
        self.s[3] ^= self.s[1];
        self.s[1] ^= self.s[2];
        self.s[0] ^= self.s[3];
        self.s[2] ^= t;
        self.s[3] = self.s[3].rotate_left(45);
        result
    }

    /// Uniform in 0..n (n > 0). Multiply-shift; bias is irrelevant here.
    pub fn below(&mut self, n: usize) -> usize {
        debug_assert!(n > 0);
        ((self.next_u64() as u128 * n as u128) >> 64) as usize
    }

    pub fn range(&mut self, lo: usize, hi_incl: usize) -> usize {
        lo + self.below(hi_incl - lo + 1)
    }

    /// True with probability num/den.
    pub fn chance(&mut self, num: usize, den: usize) -> bool {
        self.below(den) < num
    }

    pub fn pick<'a, T>(&mut self, xs: &'a [T]) -> &'a T {
        &xs[self.below(xs.len())]
    }

    /// Index drawn according to integer weights.
    pub fn weighted(&mut self, weights: &[u32]) -> usize {
        let total: u64 = weights.iter().map(|w| *w as u64).sum();
        let mut x = ((self.next_u64() as u128 * total as u128) >> 64) as u64;
        for (i, w) in weights.iter().enumerate() {
            if x < *w as u64 {
                return i;
            }
            x -= *w as u64;
        }
        weights.len() - 1
    }

    pub fn shuffle<T>(&mut self, xs: &mut [T]) {
        for i in (1..xs.len()).rev() {
            let j = self.below(i + 1);
            xs.swap(i, j);
        }
    }

    pub fn fork(&mut self) -> Rng {
        Rng::new(self.next_u64())
    }
}
