//! Isolation oracle: "what does this one call do when it is the only thing a pristine process ever does?"
//!
//! `Oracle::start` forks a *server* while the worker is still single-threaded and has never called
//! the library. For every request the server forks a grandchild that evaluates exactly one
//! operation — on a fresh thread with the configured stack size, with fd 1 / fd 2 pointing at a
//! private memfd — and reports the outcome, the text the `log` seam received, the number of
//! scheduling points passed and whatever reached fd 1 / fd 2 by another route. The oracle is the
//! code under test itself; it knows nothing about JsonLogic semantics.

use serde_json::{json, Value};
use std::collections::HashMap;
use std::fs::File;
use std::io::{Read, Write};
use std::os::unix::io::FromRawFd;
use std::sync::atomic::{AtomicU64, Ordering};
use std::sync::{Arc, Mutex};

use crate::hooks::{self, ThreadCtx};
use crate::ops::{self, Op, Pool, Res};

#[derive(Clone, Debug, PartialEq, Eq)]
pub struct Iso {
    pub res: Res,
    /// text handed to the log seam, in order
    pub emitted: String,
    /// number of separate emit calls
    pub emits: u64,
    /// scheduling points passed (parse + eval + emit)
    pub steps: u64,
    /// bytes that reached fd 1 by any other route than the seam
    pub raw: String,
    /// bytes written to fd 2
    pub raw_err: String,
}

impl Iso {
    /// Everything the call wrote: through the log seam and by any other route to fd 1 / fd 2.
    pub fn out(&self) -> String {
        format!("{}{}", self.emitted, self.raw)
    }
    pub fn to_json(&self) -> Value {
        json!({"res": self.res.to_json(), "emitted": self.emitted, "emits": self.emits, "steps": self.steps, "raw": self.raw, "raw_err": self.raw_err})
    }
    pub fn from_json(v: &Value) -> Option<Iso> {
        Some(Iso {
            res: Res::from_json(v.get("res")?)?,
            emitted: v.get("emitted")?.as_str()?.to_string(),
            emits: v.get("emits")?.as_u64()?,
            steps: v.get("steps")?.as_u64()?,
            raw: v.get("raw")?.as_str()?.to_string(),
            raw_err: v.get("raw_err").and_then(|x| x.as_str()).unwrap_or("").to_string(),
        })
    }
}

struct NoPool;
impl Pool for NoPool {
    fn get(&self, _pos: usize, _text: &str) -> Option<Arc<Value>> {
        None
    }
}

struct IsoCtx {
    emitted: Mutex<String>,
    emits: AtomicU64,
    steps: AtomicU64,
}
impl ThreadCtx for IsoCtx {
    fn yield_point(&self, _site: &'static str) {
        if self.steps.fetch_add(1, Ordering::Relaxed) > ISO_STEP_CAP {
            // A generated workload that is merely expensive (not a hang): stop it, the caller skips it.
            panic!("jlsim: isolated evaluation exceeded its step budget");
        }
    }
    fn emit(&self, text: &str) {
        self.emitted.lock().unwrap().push_str(text);
        self.emits.fetch_add(1, Ordering::Relaxed);
        self.steps.fetch_add(1, Ordering::Relaxed);
    }
}

/// Evaluate one operation in *this* process on a fresh thread. Used by the grandchild.
pub fn eval_here(op: &Op, stack_kb: usize) -> (Res, String, u64, u64) {
    let ctx = Arc::new(IsoCtx { emitted: Mutex::new(String::new()), emits: AtomicU64::new(0), steps: AtomicU64::new(0) });
    let ctx2 = ctx.clone();
    let op2 = op.clone();
    let h = std::thread::Builder::new()
        .stack_size(stack_kb * 1024)
        .spawn(move || {
            hooks::set_ctx(Some(ctx2 as Arc<dyn ThreadCtx>));
            hooks::set_in_op(true);
            let r = ops::exec(&NoPool, &op2);
            hooks::set_in_op(false);
            hooks::set_ctx(None);
            r
        })
        .expect("spawn");
    let res = match h.join() {
        Ok(r) => r,
        Err(_) => Res::Panic("panic escaped catch_unwind".into()),
    };
    let emitted = ctx.emitted.lock().unwrap().clone();
    let res = if ctx.steps.load(Ordering::Relaxed) > ISO_STEP_CAP { Res::Crash(format!("over-budget: more than {} scheduling points", ISO_STEP_CAP)) } else { res };
    (res, emitted, ctx.emits.load(Ordering::Relaxed), ctx.steps.load(Ordering::Relaxed))
}

fn write_frame(f: &mut File, bytes: &[u8]) -> std::io::Result<()> {
    f.write_all(&(bytes.len() as u32).to_le_bytes())?;
    f.write_all(bytes)?;
    f.flush()
}

fn read_frame(f: &mut File) -> std::io::Result<Option<Vec<u8>>> {
    let mut len = [0u8; 4];
    match f.read_exact(&mut len) {
        Ok(()) => {}
        Err(e) if e.kind() == std::io::ErrorKind::UnexpectedEof => return Ok(None),
        Err(e) => return Err(e),
    }
    let n = u32::from_le_bytes(len) as usize;
    let mut buf = vec![0u8; n];
    f.read_exact(&mut buf)?;
    Ok(Some(buf))
}

fn pipe() -> (i32, i32) {
    let mut fds = [0i32; 2];
    let r = unsafe { libc::pipe2(fds.as_mut_ptr(), libc::O_CLOEXEC) };
    assert!(r == 0, "pipe2 failed");
    (fds[0], fds[1])
}

pub fn memfd(name: &str) -> i32 {
    let c = std::ffi::CString::new(name).unwrap();
    let fd = unsafe { libc::memfd_create(c.as_ptr(), 0) };
    assert!(fd >= 0, "memfd_create failed");
    fd
}

pub fn read_fd_all(fd: i32) -> Vec<u8> {
    let mut out = Vec::new();
    unsafe {
        libc::lseek(fd, 0, libc::SEEK_SET);
        let mut buf = [0u8; 4096];
        loop {
            let n = libc::read(fd, buf.as_mut_ptr() as *mut libc::c_void, buf.len());
            if n <= 0 {
                break;
            }
            out.extend_from_slice(&buf[..n as usize]);
        }
    }
    out
}

/// Scheduling points one isolated evaluation may pass; beyond that the operation is skipped (never judged).
pub const ISO_STEP_CAP: u64 = 15_000;

/// Wall-clock backstop for one isolated evaluation (a real clock, used only to turn a hang into an answer).
const ISO_TIMEOUT_MS: i32 = 8_000;

/// Make getrandom() in this process a seeded stream (only if the interposer is loaded).
pub fn seed_os_randomness(seed: u64) {
    let name = std::ffi::CString::new("simio_ambient").unwrap();
    let sym = unsafe { libc::dlsym(libc::RTLD_DEFAULT, name.as_ptr()) };
    if !sym.is_null() {
        let f: extern "C" fn(i64, i64, i32, u64) = unsafe { std::mem::transmute(sym) };
        f(0, 0, 1, seed);
    }
}

fn serve_one(op: &Op, stack_kb: usize, rand_seed: u64) -> Iso {
    let (rfd, wfd) = pipe();
    let pid = unsafe { libc::fork() };
    assert!(pid >= 0, "fork failed");
    if pid == 0 {
        // grandchild
        unsafe {
            libc::close(rfd);
            let cap = memfd("iso-raw");
            let cap_err = memfd("iso-raw-err");
            libc::dup2(cap, 1);
            libc::dup2(cap_err, 2);
            // OS randomness is a seeded stream: an answer that depends on it (hash iteration order)
            // is the same on every replay, and differs between the two seeds the stability check uses
            seed_os_randomness(rand_seed);
            let (res, emitted, emits, steps) = eval_here(op, stack_kb);
            let _ = std::io::stdout().flush();
            let raw = read_fd_all(cap);
            let raw_err = read_fd_all(cap_err);
            let iso = Iso { res, emitted, emits, steps, raw: String::from_utf8_lossy(&raw).into_owned(), raw_err: String::from_utf8_lossy(&raw_err).into_owned() };
            let bytes = serde_json::to_vec(&iso.to_json()).unwrap();
            let mut off = 0;
            while off < bytes.len() {
                let n = libc::write(wfd, bytes[off..].as_ptr() as *const libc::c_void, bytes.len() - off);
                if n <= 0 {
                    break;
                }
                off += n as usize;
            }
            libc::_exit(0);
        }
    }
    unsafe { libc::close(wfd) };
    // read the answer with a timeout
    let mut buf = Vec::new();
    let mut timed_out = false;
    loop {
        let mut pfd = libc::pollfd { fd: rfd, events: libc::POLLIN, revents: 0 };
        let r = unsafe { libc::poll(&mut pfd, 1, ISO_TIMEOUT_MS) };
        if r == 0 {
            timed_out = true;
            unsafe { libc::kill(pid, libc::SIGKILL) };
            break;
        }
        if r < 0 {
            continue; // EINTR
        }
        let mut chunk = [0u8; 65536];
        let n = unsafe { libc::read(rfd, chunk.as_mut_ptr() as *mut libc::c_void, chunk.len()) };
        if n <= 0 {
            break;
        }
        buf.extend_from_slice(&chunk[..n as usize]);
    }
    unsafe { libc::close(rfd) };
    let mut status = 0i32;
    unsafe { libc::waitpid(pid, &mut status, 0) };
    if timed_out {
        return Iso { res: Res::Crash(format!("hang: no answer within {} ms", ISO_TIMEOUT_MS)), emitted: String::new(), emits: 0, steps: 0, raw: String::new(), raw_err: String::new() };
    }
    let parsed = serde_json::from_slice::<Value>(&buf).ok().and_then(|v| Iso::from_json(&v));
    match parsed {
        Some(iso) if libc::WIFEXITED(status) && libc::WEXITSTATUS(status) == 0 => iso,
        _ => {
            let how = if libc::WIFSIGNALED(status) {
                format!("killed by signal {}", libc::WTERMSIG(status))
            } else {
                format!("exit status {}", libc::WEXITSTATUS(status))
            };
            Iso { res: Res::Crash(how), emitted: String::new(), emits: 0, steps: 0, raw: String::new(), raw_err: String::new() }
        }
    }
}

fn server_loop(mut rx: File, mut tx: File) -> ! {
    loop {
        let frame = match read_frame(&mut rx) {
            Ok(Some(f)) => f,
            _ => unsafe { libc::_exit(0) },
        };
        let req: Value = match serde_json::from_slice(&frame) {
            Ok(v) => v,
            Err(_) => unsafe { libc::_exit(3) },
        };
        let stack_kb = req.get("stack_kb").and_then(|v| v.as_u64()).unwrap_or(2048) as usize;
        let op = match req.get("op").and_then(Op::from_json) {
            Some(o) => o,
            None => unsafe { libc::_exit(3) },
        };
        let rand_seed = req.get("rand_seed").and_then(|v| v.as_u64()).unwrap_or(0x5eed_0001);
        let iso = serve_one(&op, stack_kb, rand_seed);
        let bytes = serde_json::to_vec(&iso.to_json()).unwrap();
        if write_frame(&mut tx, &bytes).is_err() {
            unsafe { libc::_exit(0) }
        }
    }
}

pub struct Oracle {
    tx: File,
    rx: File,
    pid: i32,
    memo: HashMap<(String, usize), Arc<Iso>>,
    pub queries: u64,
    pub forks: u64,
}

impl Oracle {
    /// Must be called while the process is single-threaded and before the library was ever used.
    pub fn start() -> Oracle {
        let (req_r, req_w) = pipe();
        let (ans_r, ans_w) = pipe();
        let pid = unsafe { libc::fork() };
        assert!(pid >= 0, "fork failed");
        if pid == 0 {
            unsafe {
                libc::close(req_w);
                libc::close(ans_r);
                // die with the worker
                libc::prctl(libc::PR_SET_PDEATHSIG, libc::SIGKILL);
                let rx = File::from_raw_fd(req_r);
                let tx = File::from_raw_fd(ans_w);
                server_loop(rx, tx);
            }
        }
        unsafe {
            libc::close(req_r);
            libc::close(ans_w);
            Oracle { tx: File::from_raw_fd(req_w), rx: File::from_raw_fd(ans_r), pid, memo: HashMap::new(), queries: 0, forks: 0 }
        }
    }

    fn ask(&mut self, op: &Op, stack_kb: usize, rand_seed: u64) -> Iso {
        self.forks += 1;
        let req = json!({"op": op.to_json(), "stack_kb": stack_kb, "rand_seed": rand_seed});
        write_frame(&mut self.tx, &serde_json::to_vec(&req).unwrap()).expect("oracle request");
        let frame = read_frame(&mut self.rx).expect("oracle answer").expect("oracle closed");
        Iso::from_json(&serde_json::from_slice::<Value>(&frame).expect("oracle json")).expect("oracle iso")
    }

    /// Isolated outcome of `op` (memoised by content: an isolated result is history-free by definition).
    pub fn query(&mut self, op: &Op, stack_kb: usize) -> Arc<Iso> {
        self.queries += 1;
        let key = (op.key(), stack_kb);
        if let Some(v) = self.memo.get(&key) {
            return v.clone();
        }
        let iso = Arc::new(self.ask(op, stack_kb, 0x5eed_0001));
        self.memo.insert(key, iso.clone());
        iso
    }

    /// A second, un-memoised isolated evaluation (for the oracle-stability check).
    pub fn requery(&mut self, op: &Op, stack_kb: usize) -> Iso {
        self.ask(op, stack_kb, 0x5eed_0002)
    }

    pub fn memo_len(&self) -> usize {
        self.memo.len()
    }
}

impl Drop for Oracle {
    fn drop(&mut self) {
        unsafe {
            libc::kill(self.pid, libc::SIGKILL);
            let mut st = 0;
            libc::waitpid(self.pid, &mut st, 0);
        }
    }
}
