//! Budgeted minimisation of a failing E1 run: fewer threads, fewer operations, fewer context
//! switches, no fault, default ambient, smaller rules and data — while the same class of violation
//! persists. Every candidate is executed for real (forked child, recorded-schedule replay).

use serde_json::Value;
use std::sync::Arc;

use crate::ambient::Ambient;
use crate::e1::{self, E1Run, Violation};
use crate::ops::Op;
use crate::oracle::{Iso, Oracle};
use crate::sched::Strategy;

pub struct Shrinker<'a> {
    pub oracle: &'a mut Oracle,
    pub budget: usize,
    pub executions: usize,
    /// wall-clock cap for one minimisation (a real clock, used only to stop spending time)
    pub deadline: std::time::Instant,
}

fn same(v: &Violation, target: &Violation, content_phase: bool) -> bool {
    if v.property != target.property || v.class != target.class {
        return false;
    }
    if content_phase {
        true
    } else {
        match (&v.op, &target.op) {
            (Some(a), Some(b)) => a.key() == b.key(),
            (None, None) => true,
            _ => false,
        }
    }
}

impl<'a> Shrinker<'a> {
    /// Execute a candidate; if the target violation persists return the violation and the recorded schedule.
    fn fails(&mut self, run: &E1Run, target: &Violation, content_phase: bool) -> Option<(Violation, Vec<u8>)> {
        if self.executions >= self.budget || std::time::Instant::now() > self.deadline {
            self.executions = self.budget;
            return None;
        }
        self.executions += 1;
        let (isos, v0) = e1::isolate(run, self.oracle);
        if let Some(v) = v0.iter().find(|v| same(v, target, content_phase)) {
            return Some((v.clone(), run.schedule.clone().unwrap_or_default()));
        }
        let (run2, isos2): (E1Run, Vec<Vec<Arc<Iso>>>) = e1::without_crashers(run, &isos);
        if run2.total_ops() == 0 {
            return None;
        }
        let rep = e1::exec_in_child(&run2, &isos2);
        rep.violations.iter().find(|v| same(v, target, content_phase)).map(|v| (v.clone(), rep.choices.clone()))
    }

    pub fn shrink(&mut self, run: &E1Run, choices: &[u8], target: &Violation) -> (E1Run, Violation) {
        let mut best = run.clone();
        best.schedule = Some(choices.to_vec());
        let mut best_v = target.clone();
        // confirm that the recorded schedule reproduces at all
        match self.fails(&best, target, false) {
            Some((v, ch)) => {
                best_v = v;
                best.schedule = Some(ch);
            }
            None => return (best, best_v),
        }

        // oracle-level violations (no op list position) need no run shrinking beyond content
        // 1. no schedule at all: thread 0 to completion, then thread 1, ...
        {
            let mut c = best.clone();
            c.schedule = Some(Vec::new());
            if let Some((v, ch)) = self.fails(&c, &best_v, false) {
                best = c;
                best.schedule = Some(ch);
                best.strategy = Strategy::Sequential((0..best.threads.len() as u8).collect());
                best_v = v;
            }
        }
        // 2. drop the fault, ambient, big stacks
        if best.fault.is_some() {
            let mut c = best.clone();
            c.fault = None;
            if let Some((v, ch)) = self.fails(&c, &best_v, false) {
                best = c;
                best.schedule = Some(ch);
                best_v = v;
            }
        }
        if !best.ambient.is_default() {
            let mut c = best.clone();
            c.ambient = Ambient::default();
            if let Some((v, ch)) = self.fails(&c, &best_v, false) {
                best = c;
                best.schedule = Some(ch);
                best_v = v;
            }
        }
        // 3. drop whole threads
        let mut ti = 0;
        while ti < best.threads.len() && best.threads.len() > 1 {
            let mut c = best.clone();
            c.threads.remove(ti);
            c.stack_kb.remove(ti);
            c.schedule = c.schedule.map(|s| s.into_iter().filter(|x| *x as usize != ti).map(|x| if x as usize > ti { x - 1 } else { x }).collect());
            c.fault = match c.fault {
                Some(f) if f.thread == ti => None,
                Some(mut f) => {
                    if f.thread > ti {
                        f.thread -= 1;
                    }
                    Some(f)
                }
                None => None,
            };
            c.strategy = Strategy::Sequential((0..c.threads.len() as u8).collect());
            if let Some((v, ch)) = self.fails(&c, &best_v, false) {
                best = c;
                best.schedule = Some(ch);
                best_v = v;
            } else {
                ti += 1;
            }
        }
        // 4. drop operations: halves first, then single ones, from the end
        for ti in 0..best.threads.len() {
            let mut chunk = (best.threads[ti].len() / 2).max(1);
            loop {
                let mut oi = best.threads[ti].len();
                while oi > 0 {
                    let lo = oi.saturating_sub(chunk);
                    let mut c = best.clone();
                    c.threads[ti].drain(lo..oi);
                    c.fault = match c.fault {
                        Some(f) if f.thread == ti && f.op >= lo && f.op < oi => None,
                        Some(mut f) => {
                            if f.thread == ti && f.op >= oi {
                                f.op -= oi - lo;
                            }
                            Some(f)
                        }
                        None => None,
                    };
                    if c.total_ops() > 0 {
                        if let Some((v, ch)) = self.fails(&c, &best_v, false) {
                            best = c;
                            best.schedule = Some(ch);
                            best_v = v;
                        }
                    }
                    oi = lo;
                }
                if chunk == 1 {
                    break;
                }
                chunk /= 2;
            }
        }
        // 5. fewer context switches: give a segment to its predecessor's thread
        let mut progress = true;
        while progress && self.executions < self.budget {
            progress = false;
            let sched = best.schedule.clone().unwrap_or_default();
            let mut segs: Vec<(u8, usize)> = Vec::new();
            for c in &sched {
                match segs.last_mut() {
                    Some((t, n)) if t == c => *n += 1,
                    _ => segs.push((*c, 1)),
                }
            }
            if segs.len() <= 1 {
                break;
            }
            for i in (1..segs.len()).rev() {
                let mut s2 = segs.clone();
                s2[i].0 = s2[i - 1].0;
                let flat: Vec<u8> = s2.iter().flat_map(|(t, n)| std::iter::repeat(*t).take(*n)).collect();
                let mut c = best.clone();
                c.schedule = Some(flat);
                if let Some((v, ch)) = self.fails(&c, &best_v, false) {
                    let before = switches(best.schedule.as_deref().unwrap_or(&[]));
                    if switches(&ch) < before {
                        best = c;
                        best.schedule = Some(ch);
                        best_v = v;
                        progress = true;
                        break;
                    }
                }
            }
        }
        // 6. make operands fresh=false everywhere if possible (simpler to read), stacks default
        // 7. shrink contents of the operations
        let mut changed = true;
        while changed && self.executions < self.budget {
            changed = false;
            'outer: for ti in 0..best.threads.len() {
                for oi in 0..best.threads[ti].len() {
                    let op = best.threads[ti][oi].clone();
                    for cand in op_candidates(&op) {
                        let mut c = best.clone();
                        c.threads[ti][oi] = cand;
                        if let Some((v, ch)) = self.fails(&c, &best_v, true) {
                            best = c;
                            best.schedule = Some(ch);
                            best_v = v;
                            changed = true;
                            continue 'outer;
                        }
                    }
                }
            }
        }
        (best, best_v)
    }
}

/// Minimise an oracle-level violation (one operation, no schedule): smaller rule / data while the
/// same clause still fails.
pub fn shrink_oracle_level(target: &Violation, oracle: &mut Oracle, budget: usize) -> (Violation, usize) {
    let mut best = target.clone();
    let mut execs = 0;
    let mut changed = true;
    while changed && execs < budget {
        changed = false;
        let op = match &best.op {
            Some(o) => o.clone(),
            None => break,
        };
        for cand in op_candidates(&op) {
            if execs >= budget {
                break;
            }
            execs += 1;
            let mut t = best.clone();
            t.op = Some(cand);
            if let Some(v) = e1::recheck_oracle_level(&t, oracle).into_iter().next() {
                best = v;
                changed = true;
                break;
            }
        }
    }
    (best, execs)
}

fn switches(s: &[u8]) -> usize {
    s.windows(2).filter(|w| w[0] != w[1]).count()
}

/// Structurally smaller variants of a JSON value, most aggressive first.
pub fn value_candidates(v: &Value) -> Vec<Value> {
    let mut out = Vec::new();
    match v {
        Value::Null => {}
        Value::Array(a) if a.len() > 24 => {
            // large collections: halves and a short prefix first; never one candidate per element
            out.push(Value::Null);
            out.push(Value::Array(a[..a.len() / 2].to_vec()));
            out.push(Value::Array(a[a.len() / 2..].to_vec()));
            out.push(Value::Array(a[..8].to_vec()));
            for x in a.iter().take(3) {
                out.push(x.clone());
            }
        }
        Value::Array(a) => {
            out.push(Value::Null);
            for x in a {
                out.push(x.clone());
            }
            for i in 0..a.len() {
                let mut b = a.clone();
                b.remove(i);
                out.push(Value::Array(b));
            }
            for i in 0..a.len() {
                for c in value_candidates(&a[i]).into_iter().take(6) {
                    let mut b = a.clone();
                    b[i] = c;
                    out.push(Value::Array(b));
                }
            }
        }
        Value::Object(m) if m.len() > 24 => {
            out.push(Value::Null);
            let keys: Vec<&String> = m.keys().collect();
            let mut first = serde_json::Map::new();
            let mut second = serde_json::Map::new();
            for (i, k) in keys.iter().enumerate() {
                if i < keys.len() / 2 {
                    first.insert((*k).clone(), m[*k].clone());
                } else {
                    second.insert((*k).clone(), m[*k].clone());
                }
            }
            out.push(Value::Object(first));
            out.push(Value::Object(second));
        }
        Value::Object(m) => {
            out.push(Value::Null);
            for x in m.values() {
                out.push(x.clone());
                if let Value::Array(xs) = x {
                    for y in xs {
                        out.push(y.clone());
                    }
                }
            }
            if m.len() > 1 {
                for k in m.keys() {
                    let mut b = m.clone();
                    b.remove(k);
                    out.push(Value::Object(b));
                }
            }
            for (k, x) in m {
                for c in value_candidates(x).into_iter().take(8) {
                    let mut b = m.clone();
                    b.insert(k.clone(), c);
                    out.push(Value::Object(b));
                }
            }
        }
        Value::String(s) => {
            out.push(Value::Null);
            if !s.is_empty() {
                out.push(Value::String(String::new()));
                let half: String = s.chars().take(s.chars().count() / 2).collect();
                if &half != s {
                    out.push(Value::String(half));
                }
            }
        }
        Value::Number(n) => {
            out.push(Value::Null);
            if n.as_i64() != Some(0) {
                out.push(Value::from(0));
            }
            if n.as_i64() != Some(1) {
                out.push(Value::from(1));
            }
        }
        Value::Bool(_) => out.push(Value::Null),
    }
    out
}

fn op_candidates(op: &Op) -> Vec<Op> {
    let mut out = Vec::new();
    if op.fresh {
        let mut o = op.clone();
        o.fresh = false;
        out.push(o);
    }
    for (i, a) in op.args.iter().enumerate().rev() {
        let v: Value = match serde_json::from_str(a) {
            Ok(v) => v,
            Err(_) => continue,
        };
        for c in value_candidates(&v).into_iter().take(40) {
            let text = c.to_string();
            if &text != a && text.len() < a.len() {
                let mut o = op.clone();
                o.args[i] = text;
                out.push(o);
            }
        }
    }
    out
}
