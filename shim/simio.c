/*
 * simio — LD_PRELOAD interposer that puts the process boundary of the code under test behind a
 * seam the simulator owns.
 *
 *   - read(0), write(1), write(2), writev(1|2): driven by an explicit script (short transfers,
 *     EINTR, early EOF, I/O errors, byte flips, "never delivers": the producer is idle forever);
 *   - clock_gettime / gettimeofday / time: offset and per-reading jump;
 *   - getrandom / getentropy: seeded stream;
 *   - open*, socket, connect, unlink, rename, mkdir, fork, execve...: recorded, never perturbed.
 *
 * Every intercepted call and the action taken is logged to the fd named by SIMIO_TRACE_FD. The
 * shim never draws randomness of its own and never reads a real clock for its decisions: the
 * child's behaviour is a function of (argv, stdin bytes, script, environment).
 *
 * Environment (all optional):
 *   SIMIO_TRACE_FD   fd to log to
 *   SIMIO_READ       comma list for read(0): kN (at most N bytes) | i (EINTR) | e (EOF from now on) | xN (fail, errno N) | b (never delivers) | p (no fault)
 *   SIMIO_EOF_AT     absolute stdin offset after which the stream ends (the producer died exactly there)
 *   SIMIO_FLIPS      comma list off:xor — XOR the stdin byte at absolute offset off
 *   SIMIO_W1, SIMIO_W2   comma lists for write(1) / write(2): kN | i | xN
 *   SIMIO_BUDGET     max number of intercepted calls, then _exit(97)
 *   SIMIO_CLOCK_OFFSET, SIMIO_CLOCK_STEP   seconds
 *   SIMIO_RAND_SEED  hex; if set getrandom() is a seeded stream
 * In-process configuration (E1): simio_ambient(offset_s, step_s, rand_on, rand_seed).
 */
#define _GNU_SOURCE
#include <dlfcn.h>
#include <pthread.h>
#include <signal.h>
#include <errno.h>
#include <fcntl.h>
#include <stdarg.h>
#include <stdint.h>
#include <stdio.h>
#include <stdlib.h>
#include <string.h>
#include <sys/syscall.h>
#include <sys/time.h>
#include <sys/types.h>
#include <sys/uio.h>
#include <time.h>
#include <unistd.h>

#define MAXACT 4096
struct act { char kind; long arg; };
struct script { struct act a[MAXACT]; int n, pos; };

#define NEXT0(ret, name, ...) static ret (*real)(__VA_ARGS__); if (!real) real = dlsym(RTLD_NEXT, name)
static int inited = 0;
static int trace_fd = -1;
static struct script rd, w1, w2;
static struct { long off; unsigned char x; } flips[256];
static int nflips = 0;
static long stdin_off = 0;
static long eof_at = -1;
static int sticky_eof = 0;
static long budget = -1, calls = 0;
static int64_t clock_offset = 0, clock_step = 0;
static uint64_t clock_reads = 0;
static int rand_on = 0;
static uint64_t rand_state = 0;

static ssize_t (*real_read)(int, void *, size_t);
static ssize_t (*real_write)(int, const void *, size_t);
static int (*real_clock_gettime)(clockid_t, struct timespec *);
static int (*real_gettimeofday)(struct timeval *, void *);
static time_t (*real_time)(time_t *);

static void tr(const char *fmt, ...) {
    if (trace_fd < 0) return;
    char buf[512];
    va_list ap;
    va_start(ap, fmt);
    int n = vsnprintf(buf, sizeof buf - 1, fmt, ap);
    va_end(ap);
    if (n < 0) return;
    if (n > (int)sizeof buf - 2) n = sizeof buf - 2;
    buf[n++] = '\n';
    syscall(SYS_write, trace_fd, buf, (size_t)n);
}

static void parse_script(const char *s, struct script *sc) {
    sc->n = 0; sc->pos = 0;
    if (!s) return;
    while (*s && sc->n < MAXACT) {
        char k = *s++;
        long arg = 0;
        while (*s >= '0' && *s <= '9') arg = arg * 10 + (*s++ - '0');
        sc->a[sc->n].kind = k; sc->a[sc->n].arg = arg; sc->n++;
        if (*s == ',') s++;
    }
}

static void init(void) {
    if (inited) return;
    inited = 1;
    real_read = dlsym(RTLD_NEXT, "read");
    real_write = dlsym(RTLD_NEXT, "write");
    real_clock_gettime = dlsym(RTLD_NEXT, "clock_gettime");
    real_gettimeofday = dlsym(RTLD_NEXT, "gettimeofday");
    real_time = dlsym(RTLD_NEXT, "time");
    const char *e;
    if ((e = getenv("SIMIO_TRACE_FD"))) trace_fd = atoi(e);
    parse_script(getenv("SIMIO_READ"), &rd);
    parse_script(getenv("SIMIO_W1"), &w1);
    parse_script(getenv("SIMIO_W2"), &w2);
    if ((e = getenv("SIMIO_FLIPS"))) {
        while (*e && nflips < 256) {
            long off = strtol(e, (char **)&e, 10);
            if (*e == ':') e++;
            long x = strtol(e, (char **)&e, 10);
            flips[nflips].off = off; flips[nflips].x = (unsigned char)x; nflips++;
            if (*e == ',') e++;
        }
    }
    if ((e = getenv("SIMIO_BUDGET"))) budget = atol(e);
    if ((e = getenv("SIMIO_EOF_AT"))) eof_at = atol(e);
    if ((e = getenv("SIMIO_CLOCK_OFFSET"))) clock_offset = atoll(e);
    if ((e = getenv("SIMIO_CLOCK_STEP"))) clock_step = atoll(e);
    if ((e = getenv("SIMIO_RAND_SEED"))) { rand_on = 1; rand_state = strtoull(e, NULL, 16) | 1; }
}

/* in-process (E1): start logging intercepted calls to this fd */
void simio_trace_to(int fd) { init(); trace_fd = fd; }

void simio_ambient(int64_t offset_s, int64_t step_s, int r_on, uint64_t r_seed) {
    init();
    clock_offset = offset_s; clock_step = step_s; clock_reads = 0;
    rand_on = r_on; rand_state = r_seed | 1;
}

/* in-process (E1): the schedule moves the clock between two calls */
void simio_clock_advance(int64_t seconds) { init(); clock_offset += seconds; }

static void spend(void) {
    calls++;
    if (budget >= 0 && calls > budget) {
        tr("BUDGET exceeded after %ld intercepted calls", calls);
        syscall(SYS_exit_group, 97);
    }
}

static struct act *next(struct script *sc) {
    if (sc->pos < sc->n) return &sc->a[sc->pos++];
    return NULL;
}

ssize_t read(int fd, void *buf, size_t count) {
    init();
    if (fd != 0) return real_read(fd, buf, count);
    spend();
    if (sticky_eof) { tr("r %zu 0 eof", count); return 0; }
    if (eof_at >= 0 && stdin_off >= eof_at) { sticky_eof = 1; tr("r %zu 0 early-eof", count); return 0; }
    struct act *a = next(&rd);
    size_t want = count;
    if (eof_at >= 0 && (long)want > eof_at - stdin_off) want = (size_t)(eof_at - stdin_off);
    if (a) {
        switch (a->kind) {
        case 'p': break;
        case 'i': tr("r %zu -1 EINTR", count); errno = EINTR; return -1;
        case 'x': tr("r %zu -1 errno=%ld", count, a->arg); errno = (int)a->arg; return -1;
        case 'e': sticky_eof = 1; tr("r %zu 0 early-eof", count); return 0;
        case 'b': tr("r %zu BLOCK", count); syscall(SYS_exit_group, 98); break;
        case 'k': if ((size_t)a->arg < want) want = (size_t)a->arg; if (want == 0 && count > 0) want = 1; break;
        case 'd': {
            /* a producer that stalls: the bytes arrive, but only after a real pause (the one fault that
               costs wall-clock time; a reader that gives up on a slow stdin shows only then) */
            struct timespec ts;
            ts.tv_sec = a->arg / 1000;
            ts.tv_nsec = (a->arg % 1000) * 1000000L;
            tr("d %ld", a->arg);
            syscall(SYS_nanosleep, &ts, NULL);
            break;
        }
        default: break;
        }
    }
    ssize_t n = real_read(fd, buf, want);
    if (n > 0) {
        for (int i = 0; i < nflips; i++) {
            long rel = flips[i].off - stdin_off;
            if (rel >= 0 && rel < n) ((unsigned char *)buf)[rel] ^= flips[i].x;
        }
        stdin_off += n;
    }
    tr("r %zu %zd%s", count, n, (a && a->kind == 'k') ? " short" : "");
    return n;
}

static ssize_t do_write(int fd, const void *buf, size_t count) {
    struct script *sc = fd == 1 ? &w1 : &w2;
    spend();
    struct act *a = next(sc);
    size_t want = count;
    if (a) {
        switch (a->kind) {
        case 'p': break;
        case 'i': tr("w%d %zu -1 EINTR", fd, count); errno = EINTR; return -1;
        case 'x': tr("w%d %zu -1 errno=%ld", fd, count, a->arg); errno = (int)a->arg; return -1;
        case 'k': if ((size_t)a->arg < want) want = (size_t)a->arg; if (want == 0 && count > 0) want = 1; break;
        default: break;
        }
    }
    ssize_t n = real_write(fd, buf, want);
    tr("w%d %zu %zd%s", fd, count, n, (a && a->kind == 'k') ? " short" : "");
    return n;
}

ssize_t write(int fd, const void *buf, size_t count) {
    init();
    if (fd != 1 && fd != 2) return real_write(fd, buf, count);
    return do_write(fd, buf, count);
}

ssize_t writev(int fd, const struct iovec *iov, int iovcnt) {
    init();
    if (fd != 1 && fd != 2) return syscall(SYS_writev, fd, iov, iovcnt);
    size_t total = 0;
    for (int i = 0; i < iovcnt; i++) total += iov[i].iov_len;
    char *tmp = malloc(total ? total : 1);
    size_t off = 0;
    for (int i = 0; i < iovcnt; i++) { memcpy(tmp + off, iov[i].iov_base, iov[i].iov_len); off += iov[i].iov_len; }
    ssize_t n = do_write(fd, tmp, total);
    int saved = errno;
    free(tmp);
    errno = saved;
    return n;
}

/* ---- clocks and randomness ---- */

static int64_t skew(void) { clock_reads++; return clock_offset + (int64_t)clock_reads * clock_step; }

int clock_gettime(clockid_t id, struct timespec *ts) {
    init();
    int r = real_clock_gettime(id, ts);
    tr("clock_gettime %d", (int)id);
    if (r == 0 && (clock_offset || clock_step)) ts->tv_sec += skew();
    return r;
}

int gettimeofday(struct timeval *tv, void *tz) {
    init();
    int r = real_gettimeofday(tv, tz);
    tr("gettimeofday");
    if (r == 0 && tv && (clock_offset || clock_step)) tv->tv_sec += skew();
    return r;
}

time_t time(time_t *t) {
    init();
    time_t r = real_time(NULL);
    tr("time");
    if (clock_offset || clock_step) r += skew();
    if (t) *t = r;
    return r;
}

static uint64_t rnd(void) {
    rand_state ^= rand_state << 13; rand_state ^= rand_state >> 7; rand_state ^= rand_state << 17;
    return rand_state;
}

ssize_t getrandom(void *buf, size_t len, unsigned int flags) {
    init();
    tr("getrandom %zu", len);
    if (!rand_on) return syscall(SYS_getrandom, buf, len, flags);
    unsigned char *p = buf;
    for (size_t i = 0; i < len; i++) p[i] = (unsigned char)(rnd() >> 24);
    return (ssize_t)len;
}

int getentropy(void *buf, size_t len) {
    init();
    tr("getentropy %zu", len);
    if (len > 256) { errno = EIO; return -1; }
    if (!rand_on) return syscall(SYS_getrandom, buf, len, 0) == (ssize_t)len ? 0 : -1;
    unsigned char *p = buf;
    for (size_t i = 0; i < len; i++) p[i] = (unsigned char)(rnd() >> 24);
    return 0;
}

/* ---- recorded, never perturbed ---- */

int setenv(const char *n, const char *v, int o) { init(); NEXT0(int, "setenv", const char *, const char *, int); tr("setenv %s", n); return real(n, v, o); }
int unsetenv(const char *n) { init(); NEXT0(int, "unsetenv", const char *); tr("unsetenv %s", n); return real(n); }
int putenv(char *s) { init(); NEXT0(int, "putenv", char *); tr("putenv %.40s", s); return real(s); }
int chdir(const char *p) { init(); NEXT0(int, "chdir", const char *); tr("chdir %s", p); return real(p); }
int pthread_create(pthread_t *t, const pthread_attr_t *a, void *(*f)(void *), void *arg) {
    init(); NEXT0(int, "pthread_create", pthread_t *, const pthread_attr_t *, void *(*)(void *), void *);
    tr("pthread_create"); return real(t, a, f, arg);
}
int sigaction(int sig, const struct sigaction *act, struct sigaction *old) {
    init(); NEXT0(int, "sigaction", int, const struct sigaction *, struct sigaction *);
    if (act) tr("sigaction %d", sig);
    return real(sig, act, old);
}

char *getenv(const char *name) {
    static char *(*real)(const char *);
    if (!real) real = dlsym(RTLD_NEXT, "getenv");
    if (inited && trace_fd >= 0) tr("getenv %s", name);
    return real ? real(name) : NULL;
}
char *secure_getenv(const char *name) {
    static char *(*real)(const char *);
    if (!real) real = dlsym(RTLD_NEXT, "secure_getenv");
    if (inited && trace_fd >= 0) tr("getenv %s", name);
    return real ? real(name) : NULL;
}


int open(const char *path, int flags, ...) {
    init();
    mode_t mode = 0;
    if (flags & (O_CREAT | O_TMPFILE)) { va_list ap; va_start(ap, flags); mode = va_arg(ap, mode_t); va_end(ap); }
    tr("open %s flags=%d", path, flags);
    return syscall(SYS_openat, AT_FDCWD, path, flags, mode);
}
int open64(const char *path, int flags, ...) {
    init();
    mode_t mode = 0;
    if (flags & (O_CREAT | O_TMPFILE)) { va_list ap; va_start(ap, flags); mode = va_arg(ap, mode_t); va_end(ap); }
    tr("open %s flags=%d", path, flags);
    return syscall(SYS_openat, AT_FDCWD, path, flags | O_LARGEFILE, mode);
}
int openat(int dirfd, const char *path, int flags, ...) {
    init();
    mode_t mode = 0;
    if (flags & (O_CREAT | O_TMPFILE)) { va_list ap; va_start(ap, flags); mode = va_arg(ap, mode_t); va_end(ap); }
    tr("openat %s flags=%d", path, flags);
    return syscall(SYS_openat, dirfd, path, flags, mode);
}
int openat64(int dirfd, const char *path, int flags, ...) {
    init();
    mode_t mode = 0;
    if (flags & (O_CREAT | O_TMPFILE)) { va_list ap; va_start(ap, flags); mode = va_arg(ap, mode_t); va_end(ap); }
    tr("openat %s flags=%d", path, flags);
    return syscall(SYS_openat, dirfd, path, flags | O_LARGEFILE, mode);
}
#define NEXT(ret, name, ...) static ret (*real)(__VA_ARGS__); if (!real) real = dlsym(RTLD_NEXT, name)
int socket(int d, int t, int p) { init(); NEXT(int, "socket", int, int, int); tr("socket %d %d %d", d, t, p); return real(d, t, p); }
int connect(int fd, const void *addr, unsigned int len) { init(); NEXT(int, "connect", int, const void *, unsigned int); tr("connect %d", fd); return real(fd, addr, len); }
int unlink(const char *p) { init(); NEXT(int, "unlink", const char *); tr("unlink %s", p); return real(p); }
int rename(const char *a, const char *b) { init(); NEXT(int, "rename", const char *, const char *); tr("rename %s %s", a, b); return real(a, b); }
int mkdir(const char *p, mode_t m) { init(); NEXT(int, "mkdir", const char *, mode_t); tr("mkdir %s", p); return real(p, m); }
pid_t fork(void) { init(); NEXT(pid_t, "fork", void); tr("fork"); return real(); }
int execve(const char *p, char *const a[], char *const e[]) { init(); NEXT(int, "execve", const char *, char *const *, char *const *); tr("execve %s", p); return real(p, a, e); }
