#!/bin/bash
# Apply a seeded change to /repo, optionally run the pinned test suite, run the named checks (quick tier),
# and ALWAYS restore /repo afterwards.
#   tools/try_patch.sh [--tests] <patch.diff> <check id>...
# Prints one line per check: "<id> exit=<code> violations=<n>" and the first VIOLATION lines.
set -u
TESTS=0
if [ "${1:-}" = "--tests" ]; then TESTS=1; shift; fi
PATCH="$1"; shift
cd /verif
if ! git -C /repo diff --quiet || [ -n "$(git -C /repo status --porcelain --untracked-files=all -- src)" ]; then
  echo "refusing: /repo working tree is not clean"; exit 2
fi
restore() { git -C /repo checkout -- . ; git -C /repo clean -fdq -- src; }
trap restore EXIT
git -C /repo apply "$PATCH" || { echo "patch does not apply"; exit 2; }
if [ $TESTS = 1 ]; then
  ( cd /repo && CARGO_NET_OFFLINE=true timeout 900 cargo test --workspace --no-fail-fast --offline 2>&1 | grep -E "^test result|FAILED|^error" | head -8 )
fi
for id in "$@"; do
  out=/verif/build/run/try_$id.out
  mkdir -p /verif/build/run
  timeout 1200 ./check "$id" ${TIER:-quick} > "$out" 2>&1
  code=$?
  n=$(grep -c '^VIOLATION' "$out")
  echo "$id exit=$code violations=$n"
  grep -A1 '^VIOLATION' "$out" | head -${SHOW:-6} | cut -c1-420
  grep 'HARNESS ERROR' "$out" | head -3 | cut -c1-400
done
