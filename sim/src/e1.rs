//! Engine E1: several caller threads (real OS threads under the baton scheduler) issue histories of
//! calls against the real library; every call is judged against its isolated outcome.
//!
//! Process layout: the worker never calls the library. Isolated outcomes come from the oracle
//! server (forked first, pristine). Every simulated run executes in its own child forked from the
//! pristine worker, so a run is a pure function of its description and can be replayed in a fresh
//! process; state leaked by one run cannot reach another.

use serde_json::{json, Value};
use std::collections::{BTreeMap, HashMap};
use std::io::Write;
use std::sync::Arc;
use std::time::Duration;

use crate::ambient::Ambient;
use crate::gen::{self, Corpus};
use crate::hooks;
use crate::ops::{Op, Pool, Res, HELPERS_1, HELPERS_2, HELPERS_N};
use crate::oracle::{self, Iso, Oracle};
use crate::prng::{fnv1a, mix, Rng};
use crate::sched::{self, Chooser, EmitFault, RunOutput, RunSpec, Strategy};

pub const ORACLE_STACK_KB: usize = 2048;
pub const STEP_CAP: u64 = 20_000;

#[derive(Clone, Debug)]
pub struct E1Run {
    pub seed: u64,
    pub threads: Vec<Vec<Op>>,
    pub stack_kb: Vec<usize>,
    pub strategy: Strategy,
    pub fault: Option<EmitFault>,
    pub ambient: Ambient,
    /// recorded choice list; when present the run is a replay and `strategy` is only descriptive
    pub schedule: Option<Vec<u8>>,
    pub shape: String,
    /// allocator calls made inside library calls are scheduling points (sub-node preemption)
    pub alloc_yield: bool,
    /// short-lived threads created (and joined) before the clients, so that the callers' thread ids,
    /// thread-local slots and stacks are not always the first ones of the process
    pub tid_offset: u8,
    /// E5: the run's process is traced and its callers are scheduled between machine instructions
    pub ptrace: Option<crate::e5::PtracePlan>,
}

#[derive(Clone, Debug, PartialEq)]
pub struct Violation {
    pub property: String,
    pub class: String,
    pub thread: usize,
    pub op_idx: usize,
    pub op: Option<Op>,
    pub expected: String,
    pub got: String,
    /// "input-only": the isolated call already misbehaves; "history-or-schedule": needs the run
    pub needs: String,
}

impl Violation {
    pub fn to_json(&self) -> Value {
        json!({"property": self.property, "class": self.class, "thread": self.thread, "op_idx": self.op_idx,
               "op": self.op.as_ref().map(|o| o.to_json()), "expected": self.expected, "got": self.got, "needs": self.needs})
    }
    pub fn from_json(v: &Value) -> Option<Violation> {
        Some(Violation {
            property: v.get("property")?.as_str()?.into(),
            class: v.get("class")?.as_str()?.into(),
            thread: v.get("thread")?.as_u64()? as usize,
            op_idx: v.get("op_idx")?.as_u64()? as usize,
            op: v.get("op").and_then(Op::from_json),
            expected: v.get("expected")?.as_str()?.into(),
            got: v.get("got")?.as_str()?.into(),
            needs: v.get("needs")?.as_str()?.into(),
        })
    }
    /// identity used for "the same violation" during shrinking and for known-findings
    pub fn signature(&self) -> String {
        format!("{}/{}/{:016x}", self.property, self.class, self.op.as_ref().map(|o| fnv1a(o.key().as_bytes())).unwrap_or(0))
    }
}

// ---------------------------------------------------------------------------------------------
// (de)serialisation of runs — the replay file format
// ---------------------------------------------------------------------------------------------

fn rle(choices: &[u8]) -> Value {
    let mut out: Vec<Value> = Vec::new();
    let mut i = 0;
    while i < choices.len() {
        let mut j = i;
        while j < choices.len() && choices[j] == choices[i] {
            j += 1;
        }
        out.push(json!([choices[i], j - i]));
        i = j;
    }
    Value::Array(out)
}

fn un_rle(v: &Value) -> Option<Vec<u8>> {
    let mut out = Vec::new();
    for seg in v.as_array()? {
        let t = seg.get(0)?.as_u64()? as u8;
        let n = seg.get(1)?.as_u64()? as usize;
        for _ in 0..n {
            out.push(t);
        }
    }
    Some(out)
}

fn strategy_json(s: &Strategy) -> Value {
    match s {
        Strategy::Sequential(o) => json!({"name": "sequential", "order": o}),
        Strategy::Uniform => json!({"name": "uniform"}),
        Strategy::Burst(p) => json!({"name": "burst", "stay_pct": p}),
        Strategy::Pct { d, expected } => json!({"name": "pct", "d": d, "expected": expected}),
        Strategy::OnePreempt { order, k } => json!({"name": "one-preempt", "order": order, "k": k}),
    }
}

fn strategy_from(v: &Value) -> Option<Strategy> {
    let bytes = |x: &Value| -> Option<Vec<u8>> { x.as_array()?.iter().map(|b| b.as_u64().map(|b| b as u8)).collect() };
    Some(match v.get("name")?.as_str()? {
        "sequential" => Strategy::Sequential(bytes(v.get("order")?)?),
        "uniform" => Strategy::Uniform,
        "burst" => Strategy::Burst(v.get("stay_pct")?.as_u64()? as u32),
        "pct" => Strategy::Pct { d: v.get("d")?.as_u64()? as u32, expected: v.get("expected")?.as_u64()? },
        "one-preempt" => Strategy::OnePreempt { order: bytes(v.get("order")?)?, k: v.get("k")?.as_u64()? },
        _ => return None,
    })
}

impl E1Run {
    pub fn to_json(&self) -> Value {
        json!({
            "engine": "e1",
            "seed": self.seed,
            "shape": self.shape,
            "threads": self.threads.iter().map(|t| Value::Array(t.iter().map(|o| o.to_json()).collect())).collect::<Vec<_>>(),
            "stack_kb": self.stack_kb,
            "strategy": strategy_json(&self.strategy),
            "fault": self.fault.as_ref().map(|f| json!({"kind": "emit-fails", "thread": f.thread, "op": f.op, "emit": f.emit})),
            "ambient": self.ambient.to_json(),
            "alloc_yield": self.alloc_yield,
            "tid_offset": self.tid_offset,
            "ptrace": self.ptrace.as_ref().map(|p| p.to_json()),
            "schedule_rle": self.schedule.as_ref().map(|s| rle(s)),
        })
    }
    pub fn from_json(v: &Value) -> Option<E1Run> {
        let threads = v
            .get("threads")?
            .as_array()?
            .iter()
            .map(|t| t.as_array().and_then(|ops| ops.iter().map(Op::from_json).collect::<Option<Vec<Op>>>()))
            .collect::<Option<Vec<Vec<Op>>>>()?;
        // operand texts must parse
        for t in &threads {
            for o in t {
                for a in &o.args {
                    serde_json::from_str::<Value>(a).ok()?;
                }
            }
        }
        let n = threads.len();
        let stack_kb = match v.get("stack_kb").and_then(|s| s.as_array()) {
            Some(a) => a.iter().map(|x| x.as_u64().unwrap_or(2048) as usize).collect(),
            None => vec![2048; n],
        };
        let fault = match v.get("fault") {
            Some(f) if !f.is_null() => Some(EmitFault { thread: f.get("thread")?.as_u64()? as usize, op: f.get("op")?.as_u64()? as usize, emit: f.get("emit")?.as_u64()? }),
            _ => None,
        };
        Some(E1Run {
            seed: v.get("seed").and_then(|s| s.as_u64()).unwrap_or(0),
            threads,
            stack_kb,
            strategy: v.get("strategy").and_then(strategy_from).unwrap_or(Strategy::Sequential((0..n as u8).collect())),
            fault,
            ambient: v.get("ambient").and_then(Ambient::from_json).unwrap_or_default(),
            schedule: match v.get("schedule_rle") {
                Some(s) if !s.is_null() => Some(un_rle(s)?),
                _ => None,
            },
            shape: v.get("shape").and_then(|s| s.as_str()).unwrap_or("replay").to_string(),
            alloc_yield: v.get("alloc_yield").and_then(|s| s.as_bool()).unwrap_or(false),
            tid_offset: v.get("tid_offset").and_then(|s| s.as_u64()).unwrap_or(0) as u8,
            ptrace: match v.get("ptrace") {
                Some(p) if !p.is_null() => Some(crate::e5::PtracePlan::from_json(p)?),
                _ => None,
            },
        })
    }
    pub fn total_ops(&self) -> usize {
        self.threads.iter().map(|t| t.len()).sum()
    }
}

// ---------------------------------------------------------------------------------------------
// workload generation
// ---------------------------------------------------------------------------------------------

fn t(v: &Value) -> String {
    v.to_string()
}

fn helper_op(rng: &mut Rng, fresh: bool) -> Op {
    match rng.below(3) {
        0 => {
            let h = *rng.pick(HELPERS_1);
            let a = if h == "str_to_number" { gen::string_atom(rng) } else { gen::data(rng, 2) };
            Op::helper(h, vec![t(&a)], fresh)
        }
        1 => {
            let h = *rng.pick(HELPERS_2);
            let (a, b) = if h == "abstract_plus" && rng.chance(1, 2) { (gen::number_atom(rng), gen::number_atom(rng)) } else { (gen::data(rng, 1), gen::data(rng, 1)) };
            let mut op = Op::helper(h, vec![t(&a), t(&b)], fresh);
            if rng.chance(1, 8) {
                // the caller passes one value as both operands
                op.args[1] = op.args[0].clone();
                op.alias = true;
            }
            op
        }
        _ => {
            let h = *rng.pick(HELPERS_N);
            Op::helper(h, vec![t(&gen::helper_list(rng))], fresh)
        }
    }
}

/// A family of related operations, shaped so that state leaking from one call to another would show.
fn family(rng: &mut Rng, corpus: &Corpus, deep_levels: (usize, usize), out: &mut Vec<Op>) -> &'static str {
    let fresh = rng.chance(1, 4);
    match rng.weighted(&[14, 14, 10, 8, 8, 8, 6, 6, 5, 5, 6, 2, 6, 6, 6, 3, 6, 5]) {
        17 => {
            // pairs and triples of extreme numbers through every arithmetic and comparison operator:
            // the traps of integer arithmetic need *both* operands at an edge (MIN % -1, MIN / -1,
            // MIN - 1, MAX + 1, 0 / 0, -0.0 against 0) and random atoms rarely meet in pairs
            // (the first ten are the core: three picks in four come from them, so that every pair of them
            // meets every operator within a quick batch)
            let extremes: Vec<Value> = vec![
                json!(i64::MIN), json!(-1), json!(0), json!(-0.0), json!(1), json!(i64::MAX), json!(u64::MAX), json!(9007199254740993u64), json!(1e308), json!(i64::MIN + 1),
                json!(2), json!(i64::MAX - 1), json!(-9007199254740993i64), json!(-1e308), json!(5e-324), json!(0.5), json!(1e19), json!(-1e19),
                json!("-9223372036854775808"), json!("-1"), json!("0"), json!("1e400"), json!(""), json!(null), json!(true), json!([]), json!([-1]),
            ];
            let n = rng.range(4, 8);
            for _ in 0..n {
                let o = *rng.pick(&["%", "/", "-", "+", "*", "max", "min", "<", "<=", ">", ">=", "==", "!=", "===", "substr", "in", "merge", "cat"]);
                let pick = |rng: &mut Rng| -> Value { if rng.chance(3, 4) { extremes[rng.below(10)].clone() } else { rng.pick(&extremes).clone() } };
                let a = pick(rng);
                let b = pick(rng);
                let r = match (o, rng.below(4)) {
                    ("-", 0) => json!({"-": [a]}),
                    ("substr", _) => json!({"substr": [*rng.pick(&["", "a", "héllo", "日本語テキスト"]), a, b]}),
                    (_, 1) if ["+", "*", "max", "min", "<", "<=", "cat", "merge"].contains(&o) => {
                        let c = pick(rng);
                        json!({ o: [a, b, c] })
                    }
                    (_, 2) => json!({ o: [{"var": "a"}, {"var": "b"}] }),
                    _ => json!({ o: [a.clone(), b.clone()] }),
                };
                let d = json!({"a": a, "b": b});
                out.push(Op::apply(&t(&r), &t(&d), fresh));
            }
            "arithmetic-extremes"
        }
        0 => {
            // same rule x different data (corpus rule)
            let (r, d) = rng.pick(&corpus.cases).clone();
            let dv: Value = serde_json::from_str(&d).unwrap();
            out.push(Op::apply(&r, &d, fresh));
            for _ in 0..rng.range(1, 3) {
                let d2 = if rng.chance(1, 4) { rng.pick(&corpus.cases).1.clone() } else { t(&gen::vary(rng, &dv)) };
                out.push(Op::apply(&r, &d2, rng.chance(1, 4)));
            }
            "same-rule-different-data"
        }
        1 => {
            // same rule x different data (generated rule)
            let r = t(&gen::rule(rng, 3));
            let d = gen::data(rng, 3);
            out.push(Op::apply(&r, &t(&d), fresh));
            for _ in 0..rng.range(1, 3) {
                out.push(Op::apply(&r, &t(&gen::vary(rng, &d)), rng.chance(1, 4)));
            }
            "same-rule-different-data"
        }
        2 => {
            // same data x different rules
            let d = t(&gen::data(rng, 3));
            for _ in 0..rng.range(2, 4) {
                let r = if rng.chance(1, 3) { rng.pick(&corpus.cases).0.clone() } else { t(&gen::rule(rng, 3)) };
                out.push(Op::apply(&r, &d, rng.chance(1, 4)));
            }
            "same-data-different-rules"
        }
        3 => {
            // exact repetition
            let (r, d) = if rng.chance(1, 2) { rng.pick(&corpus.cases).clone() } else { (t(&gen::rule(rng, 3)), t(&gen::data(rng, 2))) };
            for _ in 0..rng.range(2, 4) {
                out.push(Op::apply(&r, &d, rng.chance(1, 3)));
            }
            "repetition"
        }
        4 => {
            // deep rules (several threads inside deep recursion at once)
            let levels = rng.range(deep_levels.0, deep_levels.1);
            let r = gen::deep_rule(rng, levels, 126);
            let d = gen::data(rng, 2);
            out.push(Op::apply(&t(&r), &t(&d), fresh));
            if rng.chance(1, 2) {
                out.push(Op::apply(&t(&r), &t(&gen::vary(rng, &d)), fresh));
            }
            "deep-rule"
        }
        5 => {
            // an erroring call followed by a succeeding one
            let bad = match rng.below(5) {
                0 => json!({"+": ["x", 1]}),
                1 => json!({"if": [true, {"substr": [1, 1]}, 0]}),
                2 => json!({"==": [1]}),
                3 => json!({"and": [1, {"/": ["a", 2]}]}),
                _ => {
                    let lv = rng.range(10, 40);
                    gen::deep_rule(rng, lv, 126)
                }
            };
            let bad = if bad.get("and").is_none() && rng.chance(1, 2) { json!({"cat": ["a", {"log": "before-error"}, bad]}) } else { bad };
            out.push(Op::apply(&t(&bad), &t(&gen::data(rng, 1)), fresh));
            let (r, d) = rng.pick(&corpus.cases).clone();
            out.push(Op::apply(&r, &d, rng.chance(1, 4)));
            "error-then-success"
        }
        6 => {
            // log-heavy: one call emits many lines
            let n = rng.range(2, 8);
            let items: Vec<Value> = (0..n).map(|_| gen::atom(rng)).collect();
            let r = match rng.below(4) {
                0 => json!({"map": [items, {"log": {"var": ""}}]}),
                1 => json!({"reduce": [items, {"cat": [{"var": "accumulator"}, {"log": {"var": "current"}}]}, ""]}),
                2 => json!({"filter": [items, {"log": {"var": ""}}]}),
                _ => json!({"cat": items.iter().map(|x| json!({"log": x})).collect::<Vec<_>>()}),
            };
            out.push(Op::apply(&t(&r), "null", fresh));
            if rng.chance(1, 2) {
                out.push(Op::apply(&t(&r), "null", fresh));
            }
            "log-heavy"
        }
        7 => {
            if rng.chance(1, 2) {
                for _ in 0..rng.range(1, 3) {
                    let fr = rng.chance(1, 3);
                    out.push(helper_op(rng, fr));
                }
            } else {
                // the same helper again and again with different (often equally sized) values, parsed
                // fresh each time: stale one-entry memos, address or length keyed caches
                let first = helper_op(rng, true);
                let n = rng.range(2, 5);
                out.push(first.clone());
                for _ in 0..n {
                    let mut next = first.clone();
                    for a in next.args.iter_mut() {
                        let v: Value = serde_json::from_str(a).unwrap();
                        let nv = match (&v, rng.below(3)) {
                            (Value::String(s), 0) => Value::String(s.chars().rev().collect()),
                            (Value::Array(xs), 0) => {
                                let mut ys = xs.clone();
                                ys.reverse();
                                Value::Array(ys)
                            }
                            _ => gen::vary(rng, &v),
                        };
                        *a = t(&nv);
                    }
                    next.fresh = rng.chance(3, 4);
                    next.alias = false;
                    out.push(next);
                }
                if rng.chance(1, 2) {
                    out.push(first);
                }
            }
            "helpers"
        }
        9 => {
            // deeply nested *data* walked, stringified and compared by shallow rules
            let levels = rng.range(deep_levels.0, deep_levels.1.min(122));
            let (d, path) = gen::deep_data(rng, levels);
            let dt = t(&d);
            for _ in 0..rng.range(1, 3) {
                let r = match rng.below(11) {
                    0 => json!({"var": path.clone()}),
                    1 => json!({"cat": [{"var": ""}, "x"]}),
                    2 => json!({"==": [{"var": ""}, 1]}),
                    3 => json!({"<": [{"var": ""}, {"var": ""}]}),
                    4 => json!({"merge": [{"var": ""}, {"var": ""}]}),
                    5 => json!({"in": [1, {"var": ""}]}),
                    6 => json!({"!!": [{"var": ""}]}),
                    7 => json!({"log": {"var": ""}}),
                    8 => json!({"+": [{"var": ""}]}),
                    9 => json!({"max": [{"var": ""}, 1]}),
                    _ => json!({"missing": [path.clone(), "nope"]}),
                };
                out.push(Op::apply(&t(&r), &dt, rng.chance(1, 4)));
            }
            if rng.chance(1, 3) {
                out.push(Op::helper("to_string", vec![dt.clone()], false));
            }
            "deep-data"
        }
        10 => {
            // data that looks like rules, fetched as values, defaults and quantified collections
            let inner = match rng.below(5) {
                0 => json!({"var": *rng.pick(gen::KEYS)}),
                1 => json!({"+": [{"var": "a"}, 1]}),
                2 => json!({"log": "from-data"}),
                3 => json!({"cat": [{"var": "b"}, {"var": "a.b"}]}),
                _ => json!({"if": [{"var": "x"}, {"var": "a"}, {"var": "b"}]}),
            };
            // sometimes the rule-shaped value reads the very place it is stored in
            let inner = match rng.below(10) {
                0 => json!({"all": [{"var": "list"}, true]}),
                1 => json!({"some": [{"var": "list"}, false]}),
                2 => json!({"var": ["nope", {"var": "k"}]}),
                3 => json!({"none": [{"var": "list"}, {"var": "k"}]}),
                _ => inner,
            };
            let d = json!({"k": inner.clone(), "a": gen::atom(rng), "b": gen::atom(rng), "x": gen::atom(rng), "list": [inner.clone(), gen::atom(rng), inner], "c": {"k": gen::data(rng, 1)}});
            let dt = t(&d);
            for _ in 0..rng.range(1, 3) {
                let r = match rng.below(8) {
                    0 => json!({"var": ["nope", {"var": "k"}]}),
                    1 => json!({"var": ["nope.deeper", {"var": "list.0"}]}),
                    2 => json!({"all": [{"var": "list"}, {"!!": [{"var": ""}]}]}),
                    3 => json!({"some": [{"var": "list"}, {"var": "k"}]}),
                    4 => json!({"none": [{"var": "list"}, {"==": [{"var": ""}, 1]}]}),
                    5 => json!({"map": [{"var": "list"}, {"var": ["zz", {"var": ""}]}]}),
                    6 => json!({"cat": [{"var": "k"}, {"var": ["q", {"var": "k"}]}]}),
                    _ => json!({"var": [*rng.pick(gen::KEYS), {"var": *rng.pick(&["k", "list.2", "c.k"])}]}),
                };
                out.push(Op::apply(&t(&r), &dt, rng.chance(1, 4)));
            }
            "operation-shaped-data"
        }
        11 => {
            // wide rules: hundreds of distinct paths / keys / strings in one process (tables with a
            // capacity, caches that evict, interning that resets)
            let n = *rng.pick(&[70usize, 300, 300, 520]);
            let tag = rng.below(1000);
            let mut d = serde_json::Map::new();
            for i in 0..8 {
                d.insert(format!("k{}", i), json!({"x": i, "y": [i, i + 1]}));
            }
            let dt = t(&Value::Object(d));
            for part in 0..rng.range(2, 4) {
                let paths: Vec<Value> = (0..n).map(|i| json!({"var": format!("k{}.{}{}_{}_{}", i % 8, if i % 2 == 0 { "x" } else { "q" }, tag, part, i)})).collect();
                let r = match rng.below(3) {
                    0 => json!({"cat": paths}),
                    1 => json!({"missing": (0..n).map(|i| json!(format!("k{}.m{}_{}_{}", i % 8, tag, part, i))).collect::<Vec<_>>()}),
                    _ => json!({"merge": paths}),
                };
                out.push(Op::apply(&t(&r), &dt, false));
            }
            // ... and ask for the first batch again once the later ones have been through
            if let Some(f0) = out.iter().find(|o| o.is_apply() && o.args[1] == dt).cloned() {
                out.push(f0);
            }
            "wide-rule-many-distinct-paths"
        }
        12 => {
            // the same operands through different operators, back to back (conversion helpers that
            // share a memo or a scratch value between operator families)
            let tricky: &[&str] = &["3px", "1e", " 3", "1.2.3", "inf", "0x10", "12abc", ".5.", "+5", "1,2", "-", "1e3", "١"];
            let pick = |rng: &mut Rng| -> Value {
                match rng.below(4) {
                    0 => json!(*rng.pick(tricky)),
                    1 => json!([1, 2]),
                    2 => gen::string_atom(rng),
                    _ => gen::atom(rng),
                }
            };
            let a = pick(rng);
            let b = pick(rng);
            let ops: &[&str] = &["+", "*", "-", "/", "%", "<", "<=", ">", ">=", "==", "!=", "===", "max", "min", "cat", "in", "merge", "and", "or"];
            let d = t(&gen::data(rng, 1));
            for _ in 0..rng.range(3, 6) {
                let op = *rng.pick(ops);
                let r = if rng.chance(1, 4) { json!({ op: [b.clone(), a.clone()] }) } else { json!({ op: [a.clone(), b.clone()] }) };
                out.push(Op::apply(&t(&r), &d, rng.chance(1, 4)));
            }
            "same-operands-different-operators"
        }
        13 => {
            // every caller keeps asking for its own dotted path again and again while the others ask
            // for theirs ("last path" slots, per-thread tags over shared tables)
            let d = json!({"t0": {"v": 0, "w": [10, 11]}, "t1": {"v": 1, "w": [20, 21]}, "t2": {"v": 2, "w": [30]}, "t3": {"v": 3, "w": []}, "a": {"b": {"c": "deep"}}, "s": "str"});
            let dt = t(&d);
            let paths: &[&str] = &["t0.v", "t1.v", "t2.v", "t3.v", "t0.w.1", "t1.w.0", "a.b.c", "a.b", "s.1", "t2.w.-1", "t9.v", "a\\.b"];
            for _ in 0..rng.range(2, 5) {
                let p = *rng.pick(paths);
                let n = rng.range(2, 4);
                let args: Vec<Value> = (0..n).map(|_| json!({"var": p})).collect();
                let r = match rng.below(4) {
                    0 => json!({"cat": args}),
                    1 => json!({"merge": args}),
                    2 => json!({"missing": [p, p, p]}),
                    _ => json!({"and": args}),
                };
                out.push(Op::apply(&t(&r), &dt, rng.chance(1, 5)));
            }
            "repeated-path-per-caller"
        }
        14 => {
            // one iteration operator nested inside another, in both orders (per-operator locks taken in
            // opposite orders, scratch shared between an outer and an inner pass)
            let iters: &[&str] = &["map", "filter", "all", "some", "none", "reduce"];
            let small = |rng: &mut Rng| Value::Array((0..rng.range(1, 3)).map(|_| gen::atom(rng)).collect());
            let mk = |rng: &mut Rng, outer: &str, inner: &str| -> Value {
                let leaf = match rng.below(3) {
                    0 => json!({"var": ""}),
                    1 => json!({"!!": [{"var": ""}]}),
                    _ => json!({"cat": [{"var": ""}, "x"]}),
                };
                let inner_rule = if inner == "reduce" { json!({"reduce": [small(rng), {"var": "current"}, 0]}) } else { json!({ inner: [small(rng), leaf] }) };
                if outer == "reduce" {
                    json!({"reduce": [small(rng), inner_rule, 0]})
                } else {
                    json!({ outer: [small(rng), inner_rule] })
                }
            };
            let a = *rng.pick(iters);
            let b = *rng.pick(iters);
            let d = t(&gen::data(rng, 1));
            for _ in 0..rng.range(1, 2) {
                out.push(Op::apply(&t(&mk(rng, a, b)), &d, rng.chance(1, 4)));
                out.push(Op::apply(&t(&mk(rng, b, a)), &d, rng.chance(1, 4)));
            }
            "nested-iteration-both-orders"
        }
        15 => {
            // iteration over collections of 64-400 elements (paths that only engage above a size:
            // chunking, worker threads, pre-sized buffers), with an error or a deciding element somewhere
            let n = *rng.pick(&[64usize, 65, 100, 130, 257, 400]);
            let special = rng.below(n);
            let xs: Vec<Value> = (0..n)
                .map(|i| if i == special { rng.pick(&[json!("x"), json!(null), json!(-1), json!([1]), json!(0)]).clone() } else { json!((i % 17) as i64 + 1) })
                .collect();
            let d = t(&json!({"xs": xs, "k": 3}));
            for _ in 0..rng.range(1, 2) {
                let body = match rng.below(6) {
                    0 => json!({"+": [{"var": ""}, 1]}),
                    1 => json!({">": [{"var": ""}, 0]}),
                    2 => json!({"*": [{"var": ""}, {"var": ""}]}),
                    3 => json!({"%": [{"var": ""}, 2]}),
                    4 => json!({"log": {"var": ""}}),
                    _ => json!({"cat": [{"var": ""}, "!"]}),
                };
                let op = *rng.pick(&["map", "filter", "all", "some", "none"]);
                out.push(Op::apply(&t(&json!({ op: [{"var": "xs"}, body] })), &d, rng.chance(1, 5)));
            }
            "big-collection-iteration"
        }
        16 => {
            // near-collision inputs, back to back through the same operator: same length and same ends
            // but a different middle, case variants, padded variants, 1 vs 1.0, 0 vs -0.0 (interning
            // tables, hash-only keys, normalising caches)
            let base = *rng.pick(&["customer_name", "path.to.value", "abcdefgh", "Order-2024-0001", "kéy_with_é", "0123456789", "items.0.price"]);
            let chars: Vec<char> = base.chars().collect();
            let mid = chars.len() / 2;
            let mut v1 = chars.clone();
            v1[mid] = if v1[mid] == 'x' { 'y' } else { 'x' };
            let mut v2 = chars.clone();
            v2.swap(mid - 1, mid + 1);
            let variants: Vec<String> = vec![
                base.to_string(),
                v1.iter().collect(),
                v2.iter().collect(),
                base.to_uppercase(),
                format!(" {}", base),
                format!("{} ", base),
                base.chars().rev().collect(),
            ];
            // published collision pairs of popular 32-bit string hashes (FNV-1a, Java's 31*h+c, CRC-32):
            // a table keyed by the hash alone confuses exactly these
            let mut variants = variants;
            if rng.chance(1, 2) {
                let pairs: &[&[&str]] = &[&["costarring", "liquid"], &["declinate", "macallums"], &["altarage", "zinke"], &["Aa", "BB"], &["AaAa", "BBBB", "AaBB", "BBAa"], &["plumless", "buckeroo"]];
                variants = rng.pick(pairs).iter().map(|x| x.to_string()).collect();
                variants.push(base.to_string());
            }
            let mut dm = serde_json::Map::new();
            for (i, k) in variants.iter().enumerate() {
                dm.insert(k.clone(), json!(i));
            }
            dm.insert("n".into(), json!([1, 1.0, 0, -0.0, 10, 1e1]));
            let dt = t(&Value::Object(dm));
            let shape = rng.below(6);
            let n = rng.range(3, 6);
            for _ in 0..n {
                let a = rng.pick(&variants).clone();
                let b = rng.pick(&variants).clone();
                let r = match shape {
                    0 => json!({"var": a.replace('.', "\\.")}),
                    1 => json!({"cat": [a, "|", b]}),
                    2 => json!({"==": [a, b]}),
                    3 => json!({"in": [a, [b, "zz"]]}),
                    4 => json!({"missing": [a.replace('.', "\\."), b.replace('.', "\\.")]}),
                    _ => json!({"===": [*rng.pick(&[json!(1), json!(1.0), json!(0), json!(-0.0), json!(10), json!(1e1)]), {"var": format!("n.{}", rng.below(6))}]}),
                };
                out.push(Op::apply(&t(&r), &dt, rng.chance(1, 4)));
            }
            "near-collision-inputs"
        }
        _ => {
            // structurally equal values at distinct addresses: same texts, one shared, one fresh
            let (r, d) = rng.pick(&corpus.cases).clone();
            out.push(Op::apply(&r, &d, false));
            out.push(Op::apply(&r, &d, true));
            let dv: Value = serde_json::from_str(&d).unwrap();
            out.push(Op::apply(&r, &t(&gen::vary(rng, &dv)), true));
            "equal-values-distinct-addresses"
        }
    }
}

/// Operators and core extreme operands of the systematic sweep (see `extremes_sweep_run`).
const SWEEP_OPS: &[&str] = &["%", "/", "-", "+", "*", "max", "min", "<", "<=", ">", ">=", "==", "!=", "===", "substr", "in", "merge", "cat"];

fn sweep_core() -> Vec<Value> {
    vec![json!(i64::MIN), json!(-1), json!(0), json!(-0.0), json!(1), json!(i64::MAX), json!(u64::MAX), json!(9007199254740993u64), json!(1e308), json!(i64::MIN + 1), json!("-1"), json!(null)]
}

pub const SWEEP_PER_RUN: usize = 36;

pub fn extremes_sweep_runs() -> u64 {
    let n = SWEEP_OPS.len() * sweep_core().len() * sweep_core().len();
    ((n + SWEEP_PER_RUN - 1) / SWEEP_PER_RUN) as u64
}

/// Run `k` of the systematic part of a batch: every operator of `SWEEP_OPS` over every ordered pair of
/// core extreme operands (one caller, no schedule to speak of: these are input-only outcomes, judged
/// like any other call). Random pairs of atoms meet an edge pair like (i64::MIN, -1) too rarely.
pub fn extremes_sweep_run(k: u64) -> E1Run {
    let core = sweep_core();
    let c = core.len();
    let total = SWEEP_OPS.len() * c * c;
    let mut ops = Vec::new();
    for idx in (k as usize * SWEEP_PER_RUN)..((k as usize + 1) * SWEEP_PER_RUN).min(total) {
        let o = SWEEP_OPS[idx / (c * c)];
        let a = core[(idx / c) % c].clone();
        let b = core[idx % c].clone();
        let r = match o {
            "substr" => json!({"substr": ["héllo", a, b]}),
            "-" if idx % c == 2 => json!({"-": [a]}),
            _ => json!({ o: [a, b] }),
        };
        ops.push(Op::apply(&t(&r), "null", false));
    }
    E1Run {
        seed: k,
        threads: vec![ops],
        stack_kb: vec![2048],
        strategy: Strategy::Sequential(vec![0]),
        fault: None,
        ambient: Ambient::default(),
        schedule: None,
        shape: "extremes-sweep".into(),
        alloc_yield: false,
        tid_offset: 0,
        ptrace: None,
    }
}

pub struct GenParams {
    pub deep_levels: (usize, usize),
    pub max_threads: usize,
    pub long_history_pct: usize,
}

impl GenParams {
    pub fn for_tier(tier: &str) -> GenParams {
        match tier {
            "thorough" => GenParams { deep_levels: (20, 120), max_threads: 6, long_history_pct: 6 },
            _ => GenParams { deep_levels: (20, 100), max_threads: 6, long_history_pct: 4 },
        }
    }
}

/// Draw one run: configuration (swarm), workload, fault plan, ambient, strategy — in this fixed order.
pub fn gen_run(seed: u64, params: &GenParams, corpus: &Corpus, oracle: &mut Oracle) -> E1Run {
    let mut rng = Rng::new(seed);
    // --- configuration
    let long_history = rng.chance(params.long_history_pct, 100);
    let nthreads = if long_history { 1 } else { 1 + rng.weighted(&[25, 33, 22, 12, 4, 4]).min(params.max_threads - 1) };
    let target_ops = if long_history { rng.range(40, 300) } else { rng.range(nthreads, nthreads * 6) };
    // --- workload
    let mut ops: Vec<Op> = Vec::new();
    let mut shapes: Vec<&'static str> = Vec::new();
    while ops.len() < target_ops {
        let s = family(&mut rng, corpus, params.deep_levels, &mut ops);
        if !shapes.contains(&s) {
            shapes.push(s);
        }
    }
    if long_history {
        // long histories repeat few distinct operations many times (slow leaks)
        let distinct = ops.len().min(rng.range(2, 10));
        let base: Vec<Op> = ops[..distinct].to_vec();
        ops = (0..target_ops).map(|_| rng.pick(&base).clone()).collect();
        shapes.push("long-history");
    }
    let mut threads: Vec<Vec<Op>> = vec![Vec::new(); nthreads];
    if rng.chance(1, 2) {
        // keep families together on neighbouring positions but spread over threads
        for op in ops {
            let tix = rng.below(nthreads);
            threads[tix].push(op);
        }
    } else {
        // round-robin: members of a family land on different threads
        for (i, op) in ops.into_iter().enumerate() {
            threads[i % nthreads].push(op);
        }
    }
    for tl in threads.iter_mut() {
        if !long_history && tl.len() > 8 {
            tl.truncate(8);
        }
    }
    let stack_kb: Vec<usize> = (0..nthreads).map(|_| if rng.chance(1, 4) { 8192 } else { 2048 }).collect();
    // --- fault plan: fail the j-th emit of a call that emits
    let mut fault = None;
    if rng.chance(1, 5) {
        let mut emitting: Vec<(usize, usize, u64)> = Vec::new();
        for (ti, tl) in threads.iter().enumerate() {
            for (oi, op) in tl.iter().enumerate() {
                let iso = oracle.query(op, ORACLE_STACK_KB);
                if iso.emits > 0 {
                    emitting.push((ti, oi, iso.emits));
                }
            }
        }
        if !emitting.is_empty() {
            let (ti, oi, n) = *rng.pick(&emitting);
            fault = Some(EmitFault { thread: ti, op: oi, emit: rng.below(n as usize) as u64 });
        }
    }
    // --- ambient
    let ambient = Ambient::draw(&mut rng);
    // --- granularity knob: in a third of the multi-thread runs every allocator call is a point too
    let alloc_yield = nthreads >= 2 && rng.chance(1, 3);
    let scale: u64 = if alloc_yield { 12 } else { 1 };
    // --- strategy
    let expected: u64 = threads.iter().flatten().map(|op| (oracle.query(op, ORACLE_STACK_KB).steps + 2) * scale).sum();
    let mut order: Vec<u8> = (0..nthreads as u8).collect();
    rng.shuffle(&mut order);
    let strategy = if nthreads == 1 {
        Strategy::Sequential(order)
    } else {
        match rng.weighted(&[15, 20, 20, 20, 25]) {
            0 => Strategy::Sequential(order),
            1 => Strategy::Uniform,
            2 => Strategy::Burst(*rng.pick(&[50u32, 80, 95])),
            3 => Strategy::Pct { d: rng.range(1, 3) as u32, expected: expected.max(1) },
            _ => {
                let victim_ops = &threads[order[0] as usize];
                let victim_steps: u64 = victim_ops.iter().map(|op| (oracle.query(op, ORACLE_STACK_KB).steps + 2) * scale).sum();
                Strategy::OnePreempt { order, k: rng.below(victim_steps.max(1) as usize) as u64 }
            }
        }
    };
    let tid_offset = if rng.chance(1, 2) { 0 } else { rng.range(1, 24) as u8 };
    E1Run { seed, threads, stack_kb, strategy, fault, ambient, schedule: None, shape: shapes.join("+"), alloc_yield, tid_offset, ptrace: None }
}

// ---------------------------------------------------------------------------------------------
// execution in a forked child and judging
// ---------------------------------------------------------------------------------------------

struct PoolMap {
    map: HashMap<(usize, String), (Arc<Value>, String)>,
}
impl Pool for PoolMap {
    fn get(&self, pos: usize, text: &str) -> Option<Arc<Value>> {
        self.map.get(&(pos, text.to_string())).map(|(v, _)| v.clone())
    }
}

fn build_pool(run: &E1Run) -> PoolMap {
    let mut map = HashMap::new();
    for tl in &run.threads {
        for op in tl {
            if op.fresh {
                continue;
            }
            for (pos, a) in op.args.iter().enumerate() {
                let key = (pos, a.clone());
                if !map.contains_key(&key) {
                    let v: Value = serde_json::from_str(a).expect("operand text");
                    let snap = v.to_string();
                    map.insert(key, (Arc::new(v), snap));
                }
            }
        }
    }
    PoolMap { map }
}

#[derive(Clone, Debug, Default)]
pub struct RunReport {
    pub violations: Vec<Violation>,
    pub event_hash: u64,
    pub interleaving_hash: u64,
    pub steps: u64,
    pub switches: u64,
    pub switches_in_call: u64,
    pub capped: bool,
    pub choices: Vec<u8>,
    pub calls: u64,
    pub calls_ok: u64,
    pub calls_err: u64,
    pub calls_injected: u64,
    pub emits: u64,
    pub probes: BTreeMap<String, u64>,
    pub cells: Vec<String>,
    /// names of environment variables the process asked for during the run (not RUST_*)
    pub env_reads: Vec<String>,
    /// the child died or stalled
    pub crashed: Option<String>,
    pub stalled: Option<String>,
}

impl RunReport {
    fn to_json(&self) -> Value {
        json!({
            "violations": self.violations.iter().map(|v| v.to_json()).collect::<Vec<_>>(),
            "event_hash": format!("{:016x}", self.event_hash),
            "interleaving_hash": format!("{:016x}", self.interleaving_hash),
            "steps": self.steps, "switches": self.switches, "switches_in_call": self.switches_in_call, "capped": self.capped,
            "choices": rle(&self.choices),
            "calls": self.calls, "calls_ok": self.calls_ok, "calls_err": self.calls_err, "calls_injected": self.calls_injected, "emits": self.emits,
            "probes": self.probes, "cells": self.cells, "stalled": self.stalled, "env_reads": self.env_reads,
        })
    }
    fn from_json(v: &Value) -> Option<RunReport> {
        let hex = |k: &str| -> Option<u64> { u64::from_str_radix(v.get(k)?.as_str()?, 16).ok() };
        Some(RunReport {
            violations: v.get("violations")?.as_array()?.iter().map(Violation::from_json).collect::<Option<Vec<_>>>()?,
            event_hash: hex("event_hash")?,
            interleaving_hash: hex("interleaving_hash")?,
            steps: v.get("steps")?.as_u64()?,
            switches: v.get("switches")?.as_u64()?,
            switches_in_call: v.get("switches_in_call")?.as_u64()?,
            capped: v.get("capped")?.as_bool()?,
            choices: un_rle(v.get("choices")?)?,
            calls: v.get("calls")?.as_u64()?,
            calls_ok: v.get("calls_ok")?.as_u64()?,
            calls_err: v.get("calls_err")?.as_u64()?,
            calls_injected: v.get("calls_injected")?.as_u64()?,
            emits: v.get("emits")?.as_u64()?,
            probes: v.get("probes")?.as_object()?.iter().map(|(k, x)| (k.clone(), x.as_u64().unwrap_or(0))).collect(),
            cells: v.get("cells")?.as_array()?.iter().filter_map(|c| c.as_str().map(String::from)).collect(),
            env_reads: v.get("env_reads").and_then(|e| e.as_array()).map(|a| a.iter().filter_map(|x| x.as_str().map(String::from)).collect()).unwrap_or_default(),
            crashed: None,
            stalled: v.get("stalled").and_then(|s| s.as_str()).map(String::from),
        })
    }
}

fn res_text(r: &Res) -> String {
    match r {
        Res::Ok(s) => format!("Ok({})", s),
        Res::Err(s) => format!("Err({})", s),
        Res::Panic(s) => format!("Panic({})", s),
        Res::Crash(s) => format!("Crash({})", s),
    }
}

fn lines_multiset(text: &str) -> BTreeMap<String, i64> {
    let mut m = BTreeMap::new();
    for l in text.split_inclusive('\n') {
        *m.entry(l.to_string()).or_insert(0) += 1;
    }
    m
}

/// Judge a finished run against the isolated outcomes.
fn judge(run: &E1Run, out: &RunOutput, isos: &[Vec<Arc<Iso>>], pool: &PoolMap, raw: &str) -> Vec<Violation> {
    let mut v = Vec::new();
    let mut expected_raw = String::new();
    let any_injected = out.calls.iter().flatten().any(|c| c.injected);
    for (ti, tl) in run.threads.iter().enumerate() {
        for (oi, op) in tl.iter().enumerate() {
            let rec = match out.calls.get(ti).and_then(|c| c.get(oi)) {
                Some(r) => r,
                None => continue,
            };
            let iso = &isos[ti][oi];
            expected_raw.push_str(&iso.raw);
            if rec.injected {
                continue; // the device failed under this call: its outcome is the fault's, not the library's
            }
            if rec.res != iso.res {
                v.push(Violation {
                    property: "C17".into(),
                    class: "outcome-differs-from-isolation".into(),
                    thread: ti,
                    op_idx: oi,
                    op: Some(op.clone()),
                    expected: res_text(&iso.res),
                    got: res_text(&rec.res),
                    needs: "history-or-schedule".into(),
                });
                if rec.res.is_panic() && !iso.res.is_panic() {
                    v.push(Violation {
                        property: "C01".into(),
                        class: "panic".into(),
                        thread: ti,
                        op_idx: oi,
                        op: Some(op.clone()),
                        expected: res_text(&iso.res),
                        got: res_text(&rec.res),
                        needs: "history-or-schedule".into(),
                    });
                }
            }
            if rec.res.is_panic() && iso.res.is_panic() {
                v.push(Violation {
                    property: "C01".into(),
                    class: "panic".into(),
                    thread: ti,
                    op_idx: oi,
                    op: Some(op.clone()),
                    expected: "Ok(..) or Err(..)".into(),
                    got: res_text(&rec.res),
                    needs: "input-only".into(),
                });
            }
            if rec.emitted != iso.emitted {
                v.push(Violation {
                    property: "C17".into(),
                    class: "log-output-differs-from-isolation".into(),
                    thread: ti,
                    op_idx: oi,
                    op: Some(op.clone()),
                    expected: iso.emitted.clone(),
                    got: rec.emitted.clone(),
                    needs: "history-or-schedule".into(),
                });
            }
            if !rec.inputs_intact {
                v.push(Violation {
                    property: "C17".into(),
                    class: "input-modified".into(),
                    thread: ti,
                    op_idx: oi,
                    op: Some(op.clone()),
                    expected: op.args.join(" ; "),
                    got: "an operand no longer serialises to its original text after the call".into(),
                    needs: "history-or-schedule".into(),
                });
            }
        }
    }
    // shared operands at the end of the run
    let mut keys: Vec<&(usize, String)> = pool.map.keys().collect();
    keys.sort();
    for k in keys {
        let (val, snap) = &pool.map[k];
        let now = val.to_string();
        if &now != snap && !v.iter().any(|x| x.class == "input-modified") {
            v.push(Violation {
                property: "C17".into(),
                class: "input-modified".into(),
                thread: 0,
                op_idx: 0,
                op: None,
                expected: snap.clone(),
                got: now,
                needs: "history-or-schedule".into(),
            });
        }
    }
    // the global stream of the log seam: a line, once begun, is finished before anyone else writes
    let mut open: Option<(usize, usize)> = None;
    for e in &out.stream {
        if let Some(owner) = open {
            if owner != (e.thread, e.op) {
                v.push(Violation {
                    property: "C17".into(),
                    class: "log-line-torn".into(),
                    thread: e.thread,
                    op_idx: e.op,
                    op: run.threads.get(owner.0).and_then(|t| t.get(owner.1)).cloned(),
                    expected: "each log line written whole".into(),
                    got: format!("thread {} op {} wrote {:?} inside an unfinished line of thread {} op {}", e.thread, e.op, e.text, owner.0, owner.1),
                    needs: "history-or-schedule".into(),
                });
                break;
            }
        }
        open = if e.text.ends_with('\n') { None } else { Some((e.thread, e.op)) };
    }
    // anything that reached fd 1 / fd 2 without going through the seam
    let exp = lines_multiset(&expected_raw);
    let got = lines_multiset(raw);
    let bad = if any_injected { got.iter().any(|(l, n)| exp.get(l).copied().unwrap_or(0) < *n) } else { exp != got };
    if bad {
        v.push(Violation {
            property: "C17".into(),
            class: "unexpected-bytes-on-stdout-or-stderr".into(),
            thread: 0,
            op_idx: 0,
            op: None,
            expected: expected_raw,
            got: raw.to_string(),
            needs: "history-or-schedule".into(),
        });
    }
    v
}

/// Does this interposer trace line describe a lasting or outward effect on the process (as opposed to
/// merely reading a clock, randomness, an environment variable or a file)?
pub fn is_process_effect(line: &str) -> bool {
    if ["socket ", "connect ", "unlink ", "rename ", "mkdir ", "fork", "execve ", "setenv ", "unsetenv ", "putenv ", "chdir ", "sigaction "].iter().any(|p| line.starts_with(p)) {
        return true;
    }
    if line.starts_with("open ") || line.starts_with("openat ") {
        // opened for writing / creating / truncating / appending?
        if let Some(flags) = line.rsplit("flags=").next().and_then(|f| f.trim().parse::<i64>().ok()) {
            return flags & (libc::O_WRONLY | libc::O_RDWR | libc::O_CREAT | libc::O_TRUNC | libc::O_APPEND) as i64 != 0;
        }
    }
    false
}

/// Ask the interposer (if loaded) to log intercepted calls of this process to `fd`.
fn trace_to(fd: i32) -> bool {
    let name = std::ffi::CString::new("simio_trace_to").unwrap();
    let sym = unsafe { libc::dlsym(libc::RTLD_DEFAULT, name.as_ptr()) };
    if sym.is_null() {
        return false;
    }
    let f: extern "C" fn(i32) = unsafe { std::mem::transmute(sym) };
    f(fd);
    true
}

fn child_body(run: &E1Run, isos: &[Vec<Arc<Iso>>], raw_fd: i32) -> RunReport {
    run.ambient.apply();
    let trace_fd = oracle::memfd("run-trace");
    let tracing = trace_to(trace_fd);
    if run.ptrace.is_none() {
        for _ in 0..run.tid_offset {
            let _ = std::thread::spawn(|| {}).join();
        }
    }
    let pool = Arc::new(build_pool(run));
    let chooser = match &run.schedule {
        Some(list) => Chooser::replay(list.clone()),
        None => Chooser::from_strategy(run.strategy.clone(), run.threads.len(), Rng::new(mix(run.seed, &[0x5c4ed])))
    };
    let spec = RunSpec {
        threads: &run.threads,
        stack_kb: &run.stack_kb,
        fault: run.fault.clone(),
        step_cap: if run.alloc_yield { STEP_CAP * 3 } else { STEP_CAP },
        alloc_yield: run.alloc_yield,
        watchdog: Duration::from_secs(10),
        clock_seed: if run.ptrace.is_none() { run.seed | 1 } else { 0 },
    };
    let pool_dyn: Arc<dyn Pool + Send + Sync> = pool.clone();
    let out = if run.ptrace.is_some() { crate::e5::execute_free(&spec, pool_dyn, run.ptrace.as_ref().map(|p| p.warmup.as_slice()).unwrap_or(&[])) } else { sched::execute(&spec, chooser, pool_dyn, &|_| Vec::new()) };
    let _ = std::io::stdout().flush();
    let raw = String::from_utf8_lossy(&oracle::read_fd_all(raw_fd)).into_owned();
    let mut rep = RunReport::default();
    let mut effects: Vec<String> = Vec::new();
    let threads_created = 0usize;
    if tracing {
        trace_to(-1);
        let trace = String::from_utf8_lossy(&oracle::read_fd_all(trace_fd)).into_owned();
        for line in trace.lines() {
            if let Some(name) = line.strip_prefix("getenv ") {
                if !name.starts_with("RUST_") && !rep.env_reads.iter().any(|n| n == name) && rep.env_reads.len() < 8 {
                    rep.env_reads.push(name.to_string());
                }
            } else if is_process_effect(line) {
                // reading /proc is what the supervisor itself does when a thread looks blocked
                if !line.contains("/proc/self/task/") {
                    effects.push(line.to_string());
                }
            }
        }
    }
    rep.event_hash = out.event_hash;
    rep.interleaving_hash = out.interleaving_hash;
    rep.steps = out.steps;
    rep.switches = out.switches;
    rep.switches_in_call = out.switches_in_call;
    rep.capped = out.capped;
    rep.choices = out.choices.clone();
    rep.stalled = out.stalled.clone();
    if let Some(msg) = &out.stalled {
        if let Some(d) = msg.strip_prefix("DEADLOCK: ") {
            // every call terminates alone (the oracle answered), together they never return
            rep.stalled = None;
            for (p, c) in [("C17", "deadlock-between-concurrent-calls"), ("C01", "hang")] {
                rep.violations.push(Violation {
                    property: p.into(),
                    class: c.into(),
                    thread: 0,
                    op_idx: 0,
                    op: None,
                    expected: "every call returns, as it does in isolation".into(),
                    got: d.to_string(),
                    needs: "history-or-schedule".into(),
                });
            }
        }
        return rep;
    }
    for c in out.calls.iter().flatten() {
        rep.calls += 1;
        match c.res {
            Res::Ok(_) => rep.calls_ok += 1,
            Res::Err(_) => rep.calls_err += 1,
            _ => {}
        }
        if c.injected {
            rep.calls_injected += 1;
        }
        rep.emits += c.emits;
    }
    rep.probes.insert("deep_overlap_max".into(), out.probes.deep_overlap);
    rep.probes.insert("emit_fault_fired".into(), out.probes.emit_fault_fired);
    rep.probes.insert("emit_fault_while_other_thread_in_call".into(), out.probes.emit_fault_while_other_in_call);
    rep.probes.insert("switch_between_emits_of_one_call".into(), out.probes.switches_between_emits_of_one_call);
    rep.probes.insert("switch_into_thread_that_is_mid_call".into(), out.probes.calls_overlapping);
    rep.probes.insert("lock_blocked_thread_passed_over".into(), out.probes.lock_blocked_threads_passed_over);
    rep.probes.insert("clock_moved_forward_between_two_calls".into(), out.probes.clock_advances);
    let mut cells: Vec<String> = out.cells.iter().map(|(a, s, b)| format!("{}|{}|{}", a, s, b)).collect();
    cells.sort();
    cells.dedup();
    rep.cells = cells;
    rep.violations = judge(run, &out, isos, &pool, &raw);
    // a thread that is created and joined inside a call is invisible; one that is still alive after all
    // callers have returned and been joined is a lasting effect
    let _ = threads_created;
    // (a joined thread can linger in /proc for a moment after pthread_join returns: look again before concluding)
    let count = || std::fs::read_dir("/proc/self/task").map(|d| d.count()).unwrap_or(1);
    let mut alive = count();
    let mut waited = 0;
    while alive > 1 && waited < 40 {
        std::thread::sleep(Duration::from_millis(10));
        waited += 1;
        alive = count();
    }
    if alive > 1 {
        effects.push(format!("{} thread(s) created by the code under test are still alive after every call returned", alive - 1));
    }
    if let Some(e) = effects.first() {
        rep.violations.push(Violation {
            property: "C17".into(),
            class: "evaluation-has-a-side-effect-on-the-process".into(),
            thread: 0,
            op_idx: 0,
            op: None,
            expected: "no file, socket, process, thread, environment, directory or signal-handler call while the calls run".into(),
            got: e.clone(),
            needs: "history-or-schedule".into(),
        });
    }
    rep
}

/// Execute `run` in a child forked from this (pristine) process and collect its report.
pub fn exec_in_child(run: &E1Run, isos: &[Vec<Arc<Iso>>]) -> RunReport {
    exec_in_child_traced(run, isos).0
}

/// As `exec_in_child`; for a run with a ptrace plan also returns what the tracer saw.
pub fn exec_in_child_traced(run: &E1Run, isos: &[Vec<Arc<Iso>>]) -> (RunReport, Option<crate::e5::TraceInfo>) {
    let mut tinfo: Option<crate::e5::TraceInfo> = None;
    let rep = exec_in_child_inner(run, isos, &mut tinfo);
    (rep, tinfo)
}

fn exec_in_child_inner(run: &E1Run, isos: &[Vec<Arc<Iso>>], tinfo: &mut Option<crate::e5::TraceInfo>) -> RunReport {
    let mut fds = [0i32; 2];
    assert!(unsafe { libc::pipe2(fds.as_mut_ptr(), libc::O_CLOEXEC) } == 0);
    let (rfd, wfd) = (fds[0], fds[1]);
    let pid = unsafe { libc::fork() };
    assert!(pid >= 0, "fork failed");
    if pid == 0 {
        unsafe {
            libc::close(rfd);
            if run.ptrace.is_some() {
                libc::ptrace(libc::PTRACE_TRACEME, 0, 0, 0);
                libc::raise(libc::SIGSTOP);
            }
            let cap = oracle::memfd("run-raw");
            let cap_err = oracle::memfd("run-raw-err");
            libc::dup2(cap, 1);
            libc::dup2(cap_err, 2);
            let mut rep = child_body(run, isos, cap);
            let err_bytes = oracle::read_fd_all(cap_err);
            if !err_bytes.is_empty() && rep.stalled.is_none() && !rep.violations.iter().any(|v| v.class == "panic") {
                rep.violations.push(Violation {
                    property: "C17".into(),
                    class: "writes-to-stderr".into(),
                    thread: 0,
                    op_idx: 0,
                    op: None,
                    expected: "nothing on fd 2 during the run".into(),
                    got: String::from_utf8_lossy(&err_bytes).chars().take(300).collect(),
                    needs: "history-or-schedule".into(),
                });
            }
            let bytes = serde_json::to_vec(&rep.to_json()).unwrap();
            let mut off = 0;
            while off < bytes.len() {
                let n = libc::write(wfd, bytes[off..].as_ptr() as *const libc::c_void, bytes.len() - off);
                if n <= 0 {
                    break;
                }
                off += n as usize;
            }
            libc::_exit(0);
        }
    }
    unsafe { libc::close(wfd) };
    if let Some(plan) = &run.ptrace {
        let (info, ok) = crate::e5::trace_child(pid, plan, run.threads.len());
        let verdict = (info.deadlock.clone(), info.died.clone(), info.timeout, info.setup_error.clone());
        *tinfo = Some(info);
        if !ok {
            unsafe { libc::close(rfd) };
            let mut status = 0i32;
            unsafe { libc::waitpid(pid, &mut status, libc::__WALL) };
            let mut rep = RunReport::default();
            match verdict {
                (Some(d), _, _, _) => {
                    for (p, c) in [("C17", "deadlock-between-concurrent-calls"), ("C01", "hang")] {
                        rep.violations.push(Violation { property: p.into(), class: c.into(), thread: 0, op_idx: 0, op: None, expected: "every call returns, as it does in isolation".into(), got: d.clone(), needs: "history-or-schedule".into() });
                    }
                }
                (_, Some(how), _, _) => {
                    rep.crashed = Some(how.clone());
                    for p in ["C01", "C17"] {
                        rep.violations.push(Violation { property: p.into(), class: "process-died-during-run".into(), thread: 0, op_idx: 0, op: None, expected: "every call returns".into(), got: how.clone(), needs: "history-or-schedule".into() });
                    }
                }
                (_, _, true, _) => rep.stalled = Some("traced run did not finish within its time limit".into()),
                (_, _, _, e) => rep.stalled = Some(format!("tracer set-up failed: {}", e.unwrap_or_default())),
            }
            return rep;
        }
    }
    let mut buf = Vec::new();
    let mut timed_out = false;
    loop {
        let mut pfd = libc::pollfd { fd: rfd, events: libc::POLLIN, revents: 0 };
        let r = unsafe { libc::poll(&mut pfd, 1, if run.ptrace.is_some() { 20_000 } else { 180_000 }) };
        if r == 0 {
            timed_out = true;
            unsafe { libc::kill(pid, libc::SIGKILL) };
            break;
        }
        if r < 0 {
            continue;
        }
        let mut chunk = [0u8; 65536];
        let n = unsafe { libc::read(rfd, chunk.as_mut_ptr() as *mut libc::c_void, chunk.len()) };
        if n <= 0 {
            break;
        }
        buf.extend_from_slice(&chunk[..n as usize]);
    }
    unsafe { libc::close(rfd) };
    let mut status = 0i32;
    unsafe { libc::waitpid(pid, &mut status, 0) };
    let parsed = serde_json::from_slice::<Value>(&buf).ok().and_then(|v| RunReport::from_json(&v));
    match parsed {
        Some(r) if !timed_out && libc::WIFEXITED(status) && libc::WEXITSTATUS(status) == 0 => r,
        _ => {
            if timed_out {
                // the child's own supervisor reports stalls and deadlocks; a child that merely did not
                // finish in time (an overloaded machine) says nothing about the code
                let mut rep = RunReport::default();
                rep.stalled = Some(if run.ptrace.is_some() { "released run process gave no report within 20 s".to_string() } else { "run process gave no report within 180 s".to_string() });
                return rep;
            }
            let how = if timed_out {
                "no report within 180 s".to_string()
            } else if libc::WIFSIGNALED(status) {
                format!("run process killed by signal {}", libc::WTERMSIG(status))
            } else {
                format!("run process exit status {}", libc::WEXITSTATUS(status))
            };
            let mut rep = RunReport::default();
            rep.crashed = Some(how.clone());
            for p in ["C01", "C17"] {
                rep.violations.push(Violation {
                    property: p.into(),
                    class: "process-died-during-run".into(),
                    thread: 0,
                    op_idx: 0,
                    op: None,
                    expected: "every call returns".into(),
                    got: how.clone(),
                    needs: "history-or-schedule".into(),
                });
            }
            rep
        }
    }
}

/// Isolated outcomes for every operation of a run, plus the violations that need no run at all.
pub fn isolate(run: &E1Run, oracle: &mut Oracle) -> (Vec<Vec<Arc<Iso>>>, Vec<Violation>) {
    let mut v = Vec::new();
    let mut isos = Vec::new();
    for (ti, tl) in run.threads.iter().enumerate() {
        let mut row = Vec::new();
        for (oi, op) in tl.iter().enumerate() {
            let iso = oracle.query(op, ORACLE_STACK_KB);
            if let Res::Crash(how) = &iso.res {
                if how.starts_with("over-budget") {
                    row.push(iso);
                    continue;
                }
                v.push(Violation {
                    property: "C01".into(),
                    class: if how.starts_with("hang") { "hang".into() } else { "crash".into() },
                    thread: ti,
                    op_idx: oi,
                    op: Some(op.clone()),
                    expected: "Ok(..) or Err(..)".into(),
                    got: how.clone(),
                    needs: "input-only".into(),
                });
            }
            if !iso.raw_err.is_empty() && !iso.res.is_panic() {
                v.push(Violation {
                    property: "C17".into(),
                    class: "writes-to-stderr".into(),
                    thread: ti,
                    op_idx: oi,
                    op: Some(op.clone()),
                    expected: "nothing on fd 2: the only visible effect of a call is the line of each log".into(),
                    got: iso.raw_err.chars().take(300).collect(),
                    needs: "input-only".into(),
                });
            }
            row.push(iso);
        }
        isos.push(row);
    }
    (isos, v)
}

/// Remove operations whose isolated evaluation kills the process (they cannot be run in-process).
pub fn without_crashers(run: &E1Run, isos: &[Vec<Arc<Iso>>]) -> (E1Run, Vec<Vec<Arc<Iso>>>) {
    let mut r = run.clone();
    let mut keep_isos = Vec::new();
    for (ti, tl) in run.threads.iter().enumerate() {
        let mut ops = Vec::new();
        let mut row = Vec::new();
        for (oi, op) in tl.iter().enumerate() {
            if !matches!(isos[ti][oi].res, Res::Crash(_)) {
                ops.push(op.clone());
                row.push(isos[ti][oi].clone());
            }
        }
        r.threads[ti] = ops;
        keep_isos.push(row);
    }
    if let Some(f) = &r.fault {
        // the fault addressed an (thread, op index) of the original lists; drop it if indices moved
        if r.threads[f.thread].len() != run.threads[f.thread].len() {
            r.fault = None;
        }
    }
    (r, keep_isos)
}

/// Extra oracle-level checks that need no schedule: `log` is the identity and the oracle is stable.
pub fn oracle_level_checks(run: &E1Run, rng: &mut Rng, oracle: &mut Oracle) -> (Vec<Violation>, u64) {
    let mut v = Vec::new();
    let mut n = 0;
    let applies: Vec<&Op> = run.threads.iter().flatten().filter(|o| o.is_apply()).collect();
    if applies.is_empty() {
        return (v, n);
    }
    if rng.chance(1, 3) {
        let op = *rng.pick(&applies);
        let e: Value = serde_json::from_str(&op.args[0]).unwrap();
        if gen::nesting(&e) <= 124 {
            let logged = Op::apply(&json!({"log": [e]}).to_string(), &op.args[1], false);
            let a = oracle.query(op, ORACLE_STACK_KB);
            let b = oracle.query(&logged, ORACLE_STACK_KB);
            n += 1;
            let expect_emitted = match &a.res {
                Res::Ok(text) => format!("{}{}\n", a.out(), text),
                _ => a.out(),
            };
            if a.res != b.res || b.out() != expect_emitted {
                v.push(Violation {
                    property: "C17".into(),
                    class: "log-is-not-identity-plus-one-line".into(),
                    thread: 0,
                    op_idx: 0,
                    op: Some(logged),
                    expected: format!("{} emitting {:?}", res_text(&a.res), expect_emitted),
                    got: format!("{} emitting {:?}", res_text(&b.res), b.out()),
                    needs: "input-only".into(),
                });
            }
        }
    }
    // log is the identity: removing every evaluated `log` wrapper must not change the result
    if rng.chance(1, 3) {
        let op = *rng.pick(&applies);
        let rule: Value = serde_json::from_str(&op.args[0]).unwrap();
        let stripped = strip_logs(&rule);
        if stripped != rule {
            let plain = Op::apply(&stripped.to_string(), &op.args[1], false);
            let a = oracle.query(op, ORACLE_STACK_KB);
            let b = oracle.query(&plain, ORACLE_STACK_KB);
            n += 1;
            let budget = |r: &Res| matches!(r, Res::Crash(m) if m.starts_with("over-budget"));
            // error messages quote fragments of the rule, so only "same value" / "both fail" is comparable
            let same = match (&a.res, &b.res) {
                (Res::Ok(x), Res::Ok(y)) => x == y,
                (Res::Err(_), Res::Err(_)) => true,
                (x, y) => x == y,
            };
            if !same && !budget(&a.res) && !budget(&b.res) {
                v.push(Violation {
                    property: "C17".into(),
                    class: "log-changes-the-result".into(),
                    thread: 0,
                    op_idx: 0,
                    op: Some(op.clone()),
                    expected: format!("{} (result of the same rule with its log wrappers removed: {})", res_text(&b.res), stripped),
                    got: res_text(&a.res),
                    needs: "input-only".into(),
                });
            }
        }
    }
    // one line per evaluated log: without iteration operators no log node can run twice
    if rng.chance(1, 2) {
        let op = *rng.pick(&applies);
        let rule: Value = serde_json::from_str(&op.args[0]).unwrap();
        let (logs, iterates) = count_logs(&rule);
        if logs > 0 && !iterates && !op.args[1].contains("\"log\"") {
            let a = oracle.query(op, ORACLE_STACK_KB);
            n += 1;
            if log_lines(&a.out()) > logs {
                v.push(Violation {
                    property: "C17".into(),
                    class: "more-log-lines-than-log-operators".into(),
                    thread: 0,
                    op_idx: 0,
                    op: Some(op.clone()),
                    expected: format!("at most {} line(s): the rule holds {} `log` operator(s) and no iteration", logs, logs),
                    got: format!("{} line(s): {:?}", log_lines(&a.out()), a.out()),
                    needs: "input-only".into(),
                });
            }
        }
    }
    // a `log` put around one operand of the outermost operator: at most one line more (an operand is
    // evaluated at most once unless an iteration operator repeats it)
    if rng.chance(1, 2) {
        let op = *rng.pick(&applies);
        let rule: Value = serde_json::from_str(&op.args[0]).unwrap();
        let parts = as_operation(&rule).and_then(|(name, args)| args.as_array().map(|xs| (name.to_string(), xs.clone())));
        if let Some((name, xs)) = parts {
            if name != "log" && !xs.is_empty() && gen::nesting(&rule) <= 120 {
                let i = rng.below(xs.len());
                let mut ys = xs.clone();
                ys[i] = json!({"log": [xs[i].clone()]});
                let mut m = serde_json::Map::new();
                m.insert(name, Value::Array(ys));
                let wrapped_rule = Value::Object(m);
                let w = Op::apply(&wrapped_rule.to_string(), &op.args[1], false);
                let (logs, iterates) = count_logs(&wrapped_rule);
                let a = oracle.query(&w, ORACLE_STACK_KB);
                let orig = oracle.query(op, ORACLE_STACK_KB);
                n += 1;
                let budget = |r: &Res| matches!(r, Res::Crash(m) if m.starts_with("over-budget"));
                if !budget(&a.res) && !budget(&orig.res) {
                    if !iterates && !op.args[1].contains("\"log\"") && log_lines(&a.out()) > logs {
                        v.push(Violation {
                            property: "C17".into(),
                            class: "more-log-lines-than-log-operators".into(),
                            thread: 0,
                            op_idx: 0,
                            op: Some(w.clone()),
                            expected: format!("at most {} line(s): the rule holds {} `log` operator(s) and no iteration", logs, logs),
                            got: format!("{} line(s): {:?}", log_lines(&a.out()), a.out()),
                            needs: "input-only".into(),
                        });
                    }
                    // (the result is not compared: this library evaluates the elements of a *literal* array
                    // operand of an iteration operator as rules and passes a computed array through, so a
                    // `log` around such an operand legitimately changes what is iterated)
                    let _ = &orig;
                }
            }
        }
    }
    // a log that was evaluated writes its line even when a later operand of the same call fails
    if rng.chance(1, 4) {
        let l = gen::atom(rng);
        // (the operand is bracketed: {"log": [1,2,3]} would be a log with three operands)
        // the failure is produced by `+` itself, after its operands have been evaluated in whatever order
        let rule = json!({"+": [{"log": [l.clone()]}, {"var": "v"}]});
        let op = Op::apply(&rule.to_string(), "{\"v\":\"x\"}", false);
        let a = oracle.query(&op, ORACLE_STACK_KB);
        n += 1;
        let want = format!("{}\n", l);
        if !matches!(a.res, Res::Err(_)) || a.out() != want {
            v.push(Violation {
                property: "C17".into(),
                class: "log-line-lost-or-changed-when-the-call-fails-later".into(),
                thread: 0,
                op_idx: 0,
                op: Some(op),
                expected: format!("Err(..) after writing {:?}", want),
                got: format!("{} after writing {:?}", res_text(&a.res), a.out()),
                needs: "input-only".into(),
            });
        }
    }
    // every line written by log is one complete JSON text
    if rng.chance(1, 2) {
        let op = *rng.pick(&applies);
        let a = oracle.query(op, ORACLE_STACK_KB);
        if !a.out().is_empty() && !a.res.is_panic() {
            n += 1;
            let text = a.out();
            let bad = !text.ends_with('\n') || text.lines().any(|l| serde_json::from_str::<Value>(l).is_err());
            if bad {
                v.push(Violation {
                    property: "C17".into(),
                    class: "log-line-is-not-one-json-text".into(),
                    thread: 0,
                    op_idx: 0,
                    op: Some(op.clone()),
                    expected: "newline-terminated lines, each one JSON text".into(),
                    got: format!("{:?}", a.out()),
                    needs: "input-only".into(),
                });
            }
        }
    }
    if rng.chance(1, 8) {
        let op = *rng.pick(&applies);
        let a = oracle.query(op, ORACLE_STACK_KB);
        let b = oracle.requery(op, ORACLE_STACK_KB);
        n += 1;
        let budget = |r: &Res| matches!(r, Res::Crash(m) if m.starts_with("over-budget"));
        if *a != b && !budget(&a.res) && !budget(&b.res) {
            v.push(Violation {
                property: "C17".into(),
                class: "isolated-result-not-stable".into(),
                thread: 0,
                op_idx: 0,
                op: Some(op.clone()),
                expected: format!("{:?}", a),
                got: format!("{:?}", b),
                needs: "input-only".into(),
            });
        }
    }
    (v, n)
}

const ALL_OPS: &[&str] = &[
    "==", "!=", "===", "!==", "!", "!!", "<", "<=", ">", ">=", "+", "-", "*", "/", "%", "max", "min", "merge", "in", "cat", "substr", "log", "var", "missing",
    "missing_some", "if", "?:", "or", "and", "map", "filter", "reduce", "all", "some", "none",
];
const ITER_OPS: &[&str] = &["map", "filter", "reduce", "all", "some", "none"];

fn as_operation(v: &Value) -> Option<(&str, &Value)> {
    let o = v.as_object()?;
    if o.len() != 1 {
        return None;
    }
    let (k, args) = o.iter().next()?;
    if ALL_OPS.contains(&k.as_str()) {
        Some((k.as_str(), args))
    } else {
        None
    }
}

/// Remove `log` wrappers at positions that are certainly evaluated: the direct operands of operator
/// objects reachable from the root through operator objects only. (An array or a non-operator object
/// met on the way is a literal and is left alone.)
pub fn strip_logs(v: &Value) -> Value {
    let (key, args) = match as_operation(v) {
        Some(x) => x,
        None => return v.clone(),
    };
    if key == "log" {
        match args {
            Value::Array(a) if a.len() == 1 => return strip_logs(&a[0]),
            Value::Array(_) => return v.clone(),
            other => return strip_logs(other),
        }
    }
    let new_args = match args {
        Value::Array(a) => {
            if ["all", "some", "none"].contains(&key) {
                // the first operand of the quantifiers has evaluation rules of its own: keep it
                let mut out = a.clone();
                for (i, x) in a.iter().enumerate() {
                    if i >= 1 {
                        out[i] = strip_logs(x);
                    }
                }
                Value::Array(out)
            } else {
                Value::Array(a.iter().map(strip_logs).collect())
            }
        }
        single => {
            // sugar {"op": x}: if x turns into an array it must be bracketed to stay one operand
            let st = strip_logs(single);
            if st.is_array() && !single.is_array() {
                Value::Array(vec![st])
            } else {
                st
            }
        }
    };
    json!({ key: new_args })
}

fn log_lines(emitted: &str) -> usize {
    emitted.split_inclusive('\n').count()
}

/// (number of single-key {"log": ..} objects anywhere in the rule, whether any iteration operator key occurs)
pub fn count_logs(v: &Value) -> (usize, bool) {
    match v {
        Value::Object(o) => {
            let mut n = 0;
            let mut it = false;
            if o.len() == 1 && o.contains_key("log") {
                n += 1;
            }
            for (k, x) in o {
                if ITER_OPS.contains(&k.as_str()) {
                    it = true;
                }
                let (a, b) = count_logs(x);
                n += a;
                it |= b;
            }
            (n, it)
        }
        Value::Array(a) => {
            let mut n = 0;
            let mut it = false;
            for x in a {
                let (c, d) = count_logs(x);
                n += c;
                it |= d;
            }
            (n, it)
        }
        _ => (0, false),
    }
}

pub fn diag_run(run: &E1Run) {
    hooks::diag(&serde_json::to_string(&run.to_json()).unwrap());
}

/// Re-derive an oracle-level violation from its recorded operation (used by `jlsim replay`).
pub fn recheck_oracle_level(target: &Violation, oracle: &mut Oracle) -> Vec<Violation> {
    let mut v = Vec::new();
    let op = match &target.op {
        Some(o) => o.clone(),
        None => return v,
    };
    if target.class == "log-is-not-identity-plus-one-line" {
        let rule: Value = match serde_json::from_str(&op.args[0]) {
            Ok(r) => r,
            Err(_) => return v,
        };
        let inner = match rule.get("log").and_then(|l| l.get(0)) {
            Some(e) => e.clone(),
            None => return v,
        };
        let plain = Op::apply(&inner.to_string(), &op.args[1], false);
        let a = oracle.query(&plain, ORACLE_STACK_KB);
        let b = oracle.query(&op, ORACLE_STACK_KB);
        let expect_emitted = match &a.res {
            Res::Ok(text) => format!("{}{}\n", a.out(), text),
            _ => a.out(),
        };
        if a.res != b.res || b.out() != expect_emitted {
            let mut t = target.clone();
            t.expected = format!("{} emitting {:?}", res_text(&a.res), expect_emitted);
            t.got = format!("{} emitting {:?}", res_text(&b.res), b.out());
            v.push(t);
        }
    } else if target.class == "log-changes-the-result" {
        if let Ok(rule) = serde_json::from_str::<Value>(&op.args[0]) {
            let plain = Op::apply(&strip_logs(&rule).to_string(), &op.args[1], false);
            let a = oracle.query(&op, ORACLE_STACK_KB);
            let b = oracle.query(&plain, ORACLE_STACK_KB);
            let same = match (&a.res, &b.res) {
                (Res::Ok(x), Res::Ok(y)) => x == y,
                (Res::Err(_), Res::Err(_)) => true,
                (x, y) => x == y,
            };
            if !same {
                v.push(target.clone());
            }
        }
    } else if target.class == "more-log-lines-than-log-operators" {
        if let Ok(rule) = serde_json::from_str::<Value>(&op.args[0]) {
            let (logs, iterates) = count_logs(&rule);
            let a = oracle.query(&op, ORACLE_STACK_KB);
            if !iterates && log_lines(&a.out()) > logs {
                v.push(target.clone());
            }
        }
    } else if target.class == "log-line-lost-or-changed-when-the-call-fails-later" {
        let a = oracle.query(&op, ORACLE_STACK_KB);
        if let Ok(rule) = serde_json::from_str::<Value>(&op.args[0]) {
            // the clause is about this exact shape only (minimisation may shrink L, nothing else)
            let shape_ok = rule.get("+").and_then(|c| c.as_array()).map(|c| c.len() == 2 && c[1] == json!({"var": "v"})).unwrap_or(false) && op.args[1] == "{\"v\":\"x\"}";
            if !shape_ok {
                return v;
            }
            if let Some(l) = rule.get("+").and_then(|c| c.get(0)).and_then(|x| x.get("log")).and_then(|a| a.as_array()).filter(|a| a.len() == 1).map(|a| &a[0]) {
                let want = format!("{}\n", l);
                if !matches!(a.res, Res::Err(_)) || a.out() != want {
                    v.push(target.clone());
                }
            }
        }
    } else if target.class == "log-line-is-not-one-json-text" {
        let a = oracle.query(&op, ORACLE_STACK_KB);
        let text = a.out();
        if !text.is_empty() && (!text.ends_with('\n') || text.lines().any(|l| serde_json::from_str::<Value>(l).is_err())) {
            v.push(target.clone());
        }
    } else if target.class == "isolated-result-not-stable" {
        let a = oracle.query(&op, ORACLE_STACK_KB);
        for _ in 0..8 {
            let b = oracle.requery(&op, ORACLE_STACK_KB);
            if *a != b {
                let mut t = target.clone();
                t.expected = format!("{:?}", a);
                t.got = format!("{:?}", b);
                v.push(t);
                break;
            }
        }
    }
    v
}
