//! E5 — instruction-level scheduling of real caller threads under ptrace.
//!
//! E1 can switch threads only where the code passes a scheduling point (a rule node, a `log`, an
//! allocator call). E5 removes that limit for small workloads: the run's process is a ptrace tracee
//! of the worker; its caller threads park at a start marker, and from there exactly one thread
//! executes at any time, resumed and stopped by the tracer. A schedule is a list of segments
//! "thread t runs until its n-th arrival at instruction address a" (a breakpoint), so a thread can be
//! stopped *between any two machine instructions* of the compiled library, the other threads run
//! across that point, and the first one resumes. Where to stop comes from a profile: the victim
//! thread single-stepped alone once, its instruction addresses recorded.
//!
//! Nothing runs concurrently: a thread that is about to sleep in a futex wait is held at the system
//! call's entry, and the tracer — not the kernel — decides who runs until the awaited word changes
//! (a thread blocked for good on something a stopped thread holds is therefore seen, not guessed).
//! The schedule (addresses, occurrence counts) replays exactly against the same build.

use serde_json::{json, Value};
use std::cell::{Cell, RefCell};
use std::collections::BTreeMap;
use std::sync::Arc;
use std::time::{Duration, Instant};

use crate::hooks::{self, ThreadCtx};
use crate::ops::{self, Op, Pool, Res};
use crate::prng::Hasher;
use crate::sched::{CallRecord, EmitFault, Probes, RunOutput, RunSpec};

const MAGIC: u64 = 0x6a6c_7369_6d45_3521;
const KIND_START: u64 = 1;
const KIND_END: u64 = 2;
const KIND_MAIN_READY: u64 = 3;
/// a caller finished one call (the profile covers a caller's first call only)
const KIND_OP: u64 = 4;

/// Steps recorded by one profile at most (the rest of the thread's work runs unprofiled).
pub const PROFILE_CAP: usize = 60_000;

#[derive(Clone, Debug, PartialEq)]
pub struct Seg {
    pub thread: u8,
    /// stop at the `occ`-th arrival (1-based) at this instruction address; None: run to the end marker
    pub stop: Option<(u64, u32)>,
    /// ... and then execute this many further instructions (single-stepped) before stopping
    pub plus: u32,
}

#[derive(Clone, Debug, PartialEq, Default)]
pub struct PtracePlan {
    pub segs: Vec<Seg>,
    /// single-step this thread from its start marker and record its instruction addresses
    pub profile: Option<u8>,
    /// run this thread's first call with a breakpoint on every instruction of the binary that touches a
    /// static or is an atomic operation, and count the arrivals (not part of a replay file)
    pub discover: Option<u8>,
    /// run the discovery after the segments instead of before them (what a caller executes while
    /// another one stands in the middle of its call)
    pub discover_late: bool,
    /// calls caller 0 makes, alone, before the scheduled part begins (they fill whatever the code keeps)
    pub warmup: Vec<Op>,
}

impl PtracePlan {
    pub fn to_json(&self) -> Value {
        json!({
            "segments": self.segs.iter().map(|s| match s.stop {
                Some((rip, occ)) => json!({"thread": s.thread, "until_address": format!("{:#x}", rip), "occurrence": occ, "then_single_steps": s.plus}),
                None => json!({"thread": s.thread, "until": "end"}),
            }).collect::<Vec<_>>(),
            "profile": self.profile,
            "warm_up_calls_of_caller_0_before_the_scheduled_part": self.warmup.iter().map(|o| o.to_json()).collect::<Vec<_>>(),
        })
    }
    pub fn from_json(v: &Value) -> Option<PtracePlan> {
        let mut segs = Vec::new();
        for s in v.get("segments")?.as_array()? {
            let thread = s.get("thread")?.as_u64()? as u8;
            let stop = match s.get("until_address").and_then(|a| a.as_str()) {
                Some(a) => Some((u64::from_str_radix(a.trim_start_matches("0x"), 16).ok()?, s.get("occurrence")?.as_u64()? as u32)),
                None => None,
            };
            segs.push(Seg { thread, stop, plus: s.get("then_single_steps").and_then(|p| p.as_u64()).unwrap_or(0) as u32 });
        }
        let warmup = match v.get("warm_up_calls_of_caller_0_before_the_scheduled_part").and_then(|w| w.as_array()) {
            Some(a) => a.iter().map(Op::from_json).collect::<Option<Vec<Op>>>()?,
            None => Vec::new(),
        };
        Some(PtracePlan { segs, profile: v.get("profile").and_then(|p| p.as_u64()).map(|p| p as u8), discover: None, discover_late: false, warmup })
    }
}

// ---------------------------------------------------------------------------------------------
// tracee side: caller threads that run freely between two markers
// ---------------------------------------------------------------------------------------------

#[inline(never)]
fn marker(idx: u64, kind: u64) {
    // a trap the tracer recognises by the magic number; never executed outside a traced run
    unsafe {
        std::arch::asm!("int3", in("rdi") idx, in("rsi") kind, in("rdx") MAGIC, options(nostack, preserves_flags));
    }
}

struct FreeCtx {
    cur_op: Cell<usize>,
    emit_count: Cell<u64>,
    injected: Cell<bool>,
    fault: Option<(usize, u64)>,
    /// (op index, text)
    emitted: RefCell<Vec<(usize, String)>>,
}

impl ThreadCtx for FreeCtx {
    fn yield_point(&self, _site: &'static str) {}
    fn emit(&self, text: &str) {
        let n = self.emit_count.get();
        self.emit_count.set(n + 1);
        if self.fault == Some((self.cur_op.get(), n)) {
            self.injected.set(true);
            panic!("failed printing to stdout: Broken pipe (os error 32)");
        }
        self.emitted.borrow_mut().push((self.cur_op.get(), text.to_string()));
    }
}

/// Same contract as `sched::execute`, without a baton: the threads park at a start marker, run
/// their calls, and park at an end marker; who runs in between is decided by the tracer.
pub fn execute_free(spec: &RunSpec, pool: Arc<dyn Pool + Send + Sync>, warmup: &[Op]) -> RunOutput {
    let n = spec.threads.len();
    let mut handles = Vec::new();
    for tid in 0..n {
        let ops_list: Vec<Op> = spec.threads[tid].clone();
        let pool2 = pool.clone();
        let fault: Option<EmitFault> = spec.fault.clone();
        let warm: Vec<Op> = if tid == 0 { warmup.to_vec() } else { Vec::new() };
        let h = std::thread::Builder::new()
            .stack_size(spec.stack_kb[tid] * 1024)
            .name(format!("client-{}", tid))
            .spawn(move || {
                let ctx = Arc::new(FreeCtx {
                    cur_op: Cell::new(0),
                    emit_count: Cell::new(0),
                    injected: Cell::new(false),
                    fault: fault.filter(|f| f.thread == tid).map(|f| (f.op, f.emit)),
                    emitted: RefCell::new(Vec::new()),
                });
                let dyn_ctx: Arc<dyn ThreadCtx> = ctx.clone();
                hooks::set_ctx(Some(dyn_ctx));
                let mut results: Vec<(Res, bool, bool)> = Vec::with_capacity(ops_list.len());
                // history before the scheduled part: this caller alone, outcomes not judged here
                ctx.cur_op.set(usize::MAX);
                for op in warm.iter() {
                    hooks::set_in_op(true);
                    let _ = ops::exec(&*pool2, op);
                    hooks::set_in_op(false);
                    let _ = hooks::take_input_modified();
                }
                ctx.emitted.borrow_mut().clear();
                if !warm.is_empty() {
                    // whatever the history wrote to fd 1 / fd 2 directly (a `log` that bypasses the seam) is
                    // not part of what is judged: the capture files start empty at the scheduled part
                    use std::io::Write;
                    let _ = std::io::stdout().flush();
                    unsafe {
                        for fd in [1, 2] {
                            libc::ftruncate(fd, 0);
                            libc::lseek(fd, 0, libc::SEEK_SET);
                        }
                    }
                }
                marker(tid as u64, KIND_START);
                for (i, op) in ops_list.iter().enumerate() {
                    ctx.cur_op.set(i);
                    ctx.emit_count.set(0);
                    ctx.injected.set(false);
                    hooks::set_in_op(true);
                    hooks::leave_harness(false);
                    let res = ops::exec(&*pool2, op);
                    hooks::leave_harness(false);
                    hooks::set_in_op(false);
                    let fresh_intact = !hooks::take_input_modified();
                    results.push((res, ctx.injected.get(), fresh_intact));
                    marker(tid as u64, KIND_OP);
                }
                marker(tid as u64, KIND_END);
                hooks::set_ctx(None);
                let emitted = ctx.emitted.borrow();
                let mut records = Vec::with_capacity(ops_list.len());
                for (i, (res, injected, fresh_intact)) in results.into_iter().enumerate() {
                    let mut text = String::new();
                    let mut emits = 0;
                    for (oi, t) in emitted.iter() {
                        if *oi == i {
                            text.push_str(t);
                            emits += 1;
                        }
                    }
                    let op = &ops_list[i];
                    let inputs_intact = if op.fresh {
                        fresh_intact
                    } else {
                        op.args.iter().enumerate().all(|(pos, t)| match pool2.get(pos, t) {
                            Some(v) => serde_json::to_string(&*v).map(|s| &s == t).unwrap_or(false),
                            None => true,
                        })
                    };
                    records.push(CallRecord { res, emitted: text, emits, injected, start: 0, end: 0, inputs_intact });
                }
                records
            })
            .expect("spawn client thread");
        handles.push(h);
    }
    marker(u64::MAX, KIND_MAIN_READY);
    let mut calls = Vec::with_capacity(n);
    for h in handles {
        calls.push(h.join().expect("client thread must not die"));
    }
    let mut ev = Hasher::new();
    let mut steps = 0;
    for (ti, tl) in calls.iter().enumerate() {
        for (oi, c) in tl.iter().enumerate() {
            steps += 1;
            ev.u64(ti as u64);
            ev.u64(oi as u64);
            ev.str(c.res.tag());
            match &c.res {
                Res::Ok(s) | Res::Err(s) | Res::Panic(s) | Res::Crash(s) => ev.str(s),
            }
            ev.str(&c.emitted);
            ev.u64(c.inputs_intact as u64);
        }
    }
    RunOutput {
        calls,
        stream: Vec::new(),
        choices: Vec::new(),
        steps,
        switches: 0,
        switches_in_call: 0,
        event_hash: ev.0,
        interleaving_hash: 0,
        capped: false,
        probes: Probes::default(),
        cells: Vec::new(),
        stalled: None,
    }
}

// ---------------------------------------------------------------------------------------------
// tracer side
// ---------------------------------------------------------------------------------------------

const PTRACE_GET_SYSCALL_INFO: libc::c_uint = 0x420e;
const PTRACE_EVENT_CLONE: i32 = 3;
const SYS_FUTEX: u64 = 202;

#[repr(C)]
#[derive(Clone, Copy)]
struct SyscallInfo {
    op: u8,
    pad: [u8; 3],
    arch: u32,
    instruction_pointer: u64,
    stack_pointer: u64,
    nr_or_rval: u64,
    args: [u64; 6],
}

#[derive(Clone, Debug, PartialEq)]
enum TState {
    /// in a ptrace stop, can be resumed
    Stopped,
    /// held at the entry of a futex wait whose word still has the awaited value
    Blocked { uaddr: u64, val: u32 },
    /// client: at its end marker; thread of the code under test: exited
    Finished,
}

struct Tracee {
    tid: i32,
    state: TState,
    /// a breakpoint was lifted to step over it and must be put back at the next stop
    client: Option<usize>,
}

#[derive(Debug, Clone, PartialEq)]
enum Outcome {
    ReachedStop,
    Finished,
    Blocked,
    WatchChanged,
    /// the thread busy-waits (no event for 150 ms): it was halted where it happened to be
    Spinning,
    Died(String),
    Timeout,
}

#[derive(Debug, Default, Clone)]
pub struct TraceInfo {
    pub profile: Vec<u64>,
    /// (address, arrivals) of the shared-access instructions the discovered call executed
    pub discovered: Vec<(u64, u32)>,
    pub stops_reached: u64,
    pub stops_missed: u64,
    pub blocked_events: u64,
    pub helper_runs: u64,
    pub breakpoint_hits: u64,
    pub single_steps: u64,
    pub syscall_stops: u64,
    pub extra_threads: u64,
    /// times a busy-waiting thread was halted so that somebody else could run (the place is timing-dependent)
    pub spin_yields: u64,
    pub deadlock: Option<String>,
    pub died: Option<String>,
    pub timeout: bool,
    pub setup_error: Option<String>,
}

thread_local! {
    /// addresses for `PtracePlan::discover` (set once by the batch driver from the symbol information)
    static DISCOVER_ADDRS: RefCell<Vec<u64>> = const { RefCell::new(Vec::new()) };
}

pub fn set_discover_addrs(a: Vec<u64>) {
    DISCOVER_ADDRS.with(|d| *d.borrow_mut() = a);
}

pub struct Tracer {
    pid: i32,
    threads: Vec<Tracee>,
    main_tid: i32,
    deadline: Instant,
    info: TraceInfo,
}

fn pt(req: libc::c_uint, tid: i32, addr: u64, data: u64) -> i64 {
    unsafe { libc::ptrace(req, tid, addr as *mut libc::c_void, data as *mut libc::c_void) }
}

fn peek(tid: i32, addr: u64) -> Option<u64> {
    unsafe {
        *libc::__errno_location() = 0;
        let v = libc::ptrace(libc::PTRACE_PEEKDATA, tid, addr as *mut libc::c_void, 0 as *mut libc::c_void);
        if v == -1 && *libc::__errno_location() != 0 {
            None
        } else {
            Some(v as u64)
        }
    }
}

fn poke(tid: i32, addr: u64, word: u64) -> bool {
    pt(libc::PTRACE_POKEDATA, tid, addr, word) == 0
}

fn peek_u32(tid: i32, addr: u64) -> Option<u32> {
    let base = addr & !7;
    let w = peek(tid, base)?;
    Some((w >> ((addr - base) * 8)) as u32)
}

fn peek_u8(tid: i32, addr: u64) -> Option<u8> {
    let base = addr & !7;
    let w = peek(tid, base)?;
    Some((w >> ((addr - base) * 8)) as u8)
}

fn poke_u8(tid: i32, addr: u64, b: u8) -> bool {
    let base = addr & !7;
    let w = match peek(tid, base) {
        Some(w) => w,
        None => return false,
    };
    let sh = (addr - base) * 8;
    let nw = (w & !(0xffu64 << sh)) | ((b as u64) << sh);
    poke(tid, base, nw)
}

fn getregs(tid: i32) -> Option<libc::user_regs_struct> {
    let mut regs: libc::user_regs_struct = unsafe { std::mem::zeroed() };
    if pt(libc::PTRACE_GETREGS, tid, 0, &mut regs as *mut _ as u64) == 0 {
        Some(regs)
    } else {
        None
    }
}

fn setregs(tid: i32, regs: &libc::user_regs_struct) -> bool {
    pt(libc::PTRACE_SETREGS, tid, 0, regs as *const _ as u64) == 0
}

enum Ev {
    Exited(String),
    Stop { sig: i32, event: i32 },
    Timeout,
}

impl Tracer {
    fn wait(&self, tid: i32) -> Ev {
        self.wait_q(tid, None).expect("an event")
    }

    /// `quiet_after`: give up with None when nothing has happened for that long (the resumed thread
    /// computes for long, or it busy-waits).
    fn wait_q(&self, tid: i32, quiet_after: Option<Duration>) -> Option<Ev> {
        // the tracee is the only thing running: its stop arrives within microseconds unless it
        // computes for long; poll without sleeping first (a blocking wait costs a wake-up per stop,
        // which halves the throughput), then back off
        let mut spins = 0u32;
        let mut since: Option<Instant> = None;
        loop {
            let mut status = 0i32;
            let r = unsafe { libc::waitpid(tid, &mut status, libc::__WALL | libc::WNOHANG) };
            if r == tid {
                if libc::WIFEXITED(status) {
                    return Some(Ev::Exited(format!("exit status {}", libc::WEXITSTATUS(status))));
                }
                if libc::WIFSIGNALED(status) {
                    return Some(Ev::Exited(format!("killed by signal {}", libc::WTERMSIG(status))));
                }
                if libc::WIFSTOPPED(status) {
                    return Some(Ev::Stop { sig: libc::WSTOPSIG(status), event: (status >> 16) & 0xff });
                }
                continue;
            }
            if r < 0 {
                let e = unsafe { *libc::__errno_location() };
                if e == libc::EINTR {
                    continue;
                }
                return Some(Ev::Exited(format!("waitpid errno {}", e)));
            }
            spins += 1;
            if spins > 2000 {
                let now = Instant::now();
                if now > self.deadline {
                    return Some(Ev::Timeout);
                }
                if let Some(q) = quiet_after {
                    match since {
                        None => since = Some(now),
                        Some(t0) if now.duration_since(t0) > q => return None,
                        _ => {}
                    }
                }
                std::thread::sleep(Duration::from_micros(if spins > 20000 { 500 } else { 20 }));
            } else {
                std::hint::spin_loop();
            }
        }
    }

    fn idx_of(&self, tid: i32) -> Option<usize> {
        self.threads.iter().position(|t| t.tid == tid)
    }

    fn client(&self, c: usize) -> Option<usize> {
        self.threads.iter().position(|t| t.client == Some(c))
    }

    /// Is this stop one of our markers? Returns (idx, kind).
    fn marker_at(&self, tid: i32) -> Option<(u64, u64)> {
        let regs = getregs(tid)?;
        if regs.rdx == MAGIC && peek_u8(tid, regs.rip.wrapping_sub(1)) == Some(0xcc) {
            Some((regs.rdi, regs.rsi))
        } else {
            None
        }
    }

    /// A thread created by a tracee: collect its first stop and register it.
    fn adopt_new_thread(&mut self, parent: i32) -> Option<i32> {
        let mut msg: u64 = 0;
        if pt(libc::PTRACE_GETEVENTMSG, parent, 0, &mut msg as *mut u64 as u64) != 0 {
            return None;
        }
        let newtid = msg as i32;
        match self.wait(newtid) {
            Ev::Stop { .. } => {
                self.threads.push(Tracee { tid: newtid, state: TState::Stopped, client: None });
                Some(newtid)
            }
            _ => None,
        }
    }

    /// Attach to the forked child (which called PTRACE_TRACEME and stopped itself), let it set up,
    /// and return when its main thread and all `nclients` caller threads are parked at their markers.
    pub fn setup(pid: i32, nclients: usize, deadline: Instant) -> Result<Tracer, String> {
        let mut tr = Tracer { pid, threads: Vec::new(), main_tid: pid, deadline, info: TraceInfo::default() };
        match tr.wait(pid) {
            Ev::Stop { .. } => {}
            _ => return Err("child did not stop for attachment".into()),
        }
        let opts = (libc::PTRACE_O_TRACECLONE | libc::PTRACE_O_EXITKILL | libc::PTRACE_O_TRACESYSGOOD) as u64;
        if pt(libc::PTRACE_SETOPTIONS, pid, 0, opts) != 0 {
            return Err("PTRACE_SETOPTIONS failed".into());
        }
        let mut started = 0usize;
        let mut sig_main = 0u64;
        loop {
            if pt(libc::PTRACE_CONT, pid, 0, sig_main) != 0 {
                return Err("cannot resume the main thread".into());
            }
            sig_main = 0;
            match tr.wait(pid) {
                Ev::Exited(how) => return Err(format!("process ended during set-up: {}", how)),
                Ev::Timeout => return Err("timeout during set-up".into()),
                Ev::Stop { sig, event } => {
                    if event == PTRACE_EVENT_CLONE {
                        let newtid = tr.adopt_new_thread(pid).ok_or("lost a new thread")?;
                        // run the new thread alone up to its start marker
                        let mut sig_t = 0u64;
                        loop {
                            if pt(libc::PTRACE_CONT, newtid, 0, sig_t) != 0 {
                                return Err("cannot resume a new thread".into());
                            }
                            sig_t = 0;
                            match tr.wait(newtid) {
                                Ev::Exited(_) => {
                                    // a helper thread of the set-up phase that simply ends
                                    let i = tr.idx_of(newtid).unwrap();
                                    tr.threads.remove(i);
                                    break;
                                }
                                Ev::Timeout => return Err("timeout while a new thread was starting".into()),
                                Ev::Stop { sig, event } => {
                                    if event == PTRACE_EVENT_CLONE {
                                        return Err("a starting thread created a thread".into());
                                    }
                                    if sig == libc::SIGTRAP && event == 0 {
                                        if let Some((idx, kind)) = tr.marker_at(newtid) {
                                            if kind == KIND_START {
                                                let i = tr.idx_of(newtid).unwrap();
                                                tr.threads[i].client = Some(idx as usize);
                                                started += 1;
                                                break;
                                            }
                                        }
                                        continue;
                                    }
                                    if sig == libc::SIGSTOP {
                                        continue;
                                    }
                                    sig_t = sig as u64;
                                }
                            }
                        }
                        continue;
                    }
                    if sig == libc::SIGTRAP && event == 0 {
                        if let Some((_, kind)) = tr.marker_at(pid) {
                            if kind == KIND_MAIN_READY {
                                break;
                            }
                        }
                        continue;
                    }
                    if sig == libc::SIGSTOP || sig == (libc::SIGTRAP | 0x80) {
                        continue;
                    }
                    sig_main = sig as u64;
                }
            }
        }
        if started != nclients {
            return Err(format!("{} of {} caller threads reached their start marker", started, nclients));
        }
        Ok(tr)
    }

    fn word_changed(&self, tid: i32, uaddr: u64, val: u32) -> bool {
        match peek_u32(tid, uaddr) {
            Some(w) => w != val,
            None => true,
        }
    }

    /// Resume thread `ti` until: its `stop` (breakpoint occurrence), its end (marker / exit), a futex
    /// wait it cannot pass, or — when `watch` is given — the first system-call stop or thread event at
    /// which the watched futex word no longer has the awaited value.
    fn run_until(&mut self, ti: usize, stop: Option<(u64, u32)>, watch: Option<(u64, u32)>) -> Outcome {
        let tid = self.threads[ti].tid;
        let mut remaining = stop.map(|s| s.1.max(1)).unwrap_or(0);
        let bp_addr = stop.map(|s| s.0);
        let mut orig: u8 = 0;
        let mut bp_in = false;
        if let Some(a) = bp_addr {
            match peek_u8(tid, a) {
                Some(b) => orig = b,
                None => return Outcome::Died(format!("breakpoint address {:#x} is not mapped", a)),
            }
            // the thread may be standing on that very instruction: arriving there again is what counts
            let at = getregs(tid).map(|r| r.rip) == Some(a);
            if !at {
                if !poke_u8(tid, a, 0xcc) {
                    return Outcome::Died("cannot insert a breakpoint".into());
                }
                bp_in = true;
            }
        }
        let lift = |bp_in: &mut bool| {
            if *bp_in {
                if let Some(a) = bp_addr {
                    poke_u8(tid, a, orig);
                }
                *bp_in = false;
            }
        };
        let mut pending_sig = 0u64;
        let mut need_reinsert = bp_addr.is_some() && !bp_in;
        // a thread held at a futex-wait entry proceeds into the call when resumed
        self.threads[ti].state = TState::Stopped;
        loop {
            let req = if need_reinsert {
                // standing on the lifted breakpoint: execute that one instruction, then put it back.
                // (a `syscall` instruction is not single-stepped: its entry stop comes at once anyway)
                let regs = getregs(tid);
                let is_syscall = regs.as_ref().and_then(|r| peek(tid, r.rip)).map(|w| (w & 0xffff) == 0x050f).unwrap_or(false);
                if is_syscall {
                    libc::PTRACE_SYSCALL
                } else {
                    self.info.single_steps += 1;
                    libc::PTRACE_SINGLESTEP
                }
            } else {
                libc::PTRACE_SYSCALL
            };
            if pt(req, tid, 0, pending_sig) != 0 {
                lift(&mut bp_in);
                return Outcome::Died("cannot resume thread".into());
            }
            pending_sig = 0;
            let first = self.wait_q(tid, Some(Duration::from_millis(150)));
            let mut ev = Ev::Timeout;
            let quiet = first.is_none();
            if let Some(e) = first {
                ev = e;
            }
            if quiet {
                // halt it where it is (a signal-delivery stop; the signal itself is not delivered)
                unsafe { libc::syscall(libc::SYS_tgkill, self.pid, tid, libc::SIGSTOP) };
                loop {
                    match self.wait(tid) {
                        Ev::Stop { sig, event } if sig == libc::SIGSTOP && event == 0 => {
                            if need_reinsert {
                                if let Some(a) = bp_addr {
                                    if poke_u8(tid, a, 0xcc) {
                                        bp_in = true;
                                    }
                                }
                            }
                            lift(&mut bp_in);
                            self.info.spin_yields += 1;
                            return Outcome::Spinning;
                        }
                        other => {
                            // something else happened first: handle it normally; the pending SIGSTOP will
                            // surface as a stop later and is ignored there
                            ev = other;
                            break;
                        }
                    }
                }
            }
            if need_reinsert {
                if let (Some(a), Ev::Stop { .. }) = (bp_addr, &ev) {
                    if poke_u8(tid, a, 0xcc) {
                        bp_in = true;
                    }
                }
                need_reinsert = false;
                if req == libc::PTRACE_SINGLESTEP {
                    if let Ev::Stop { sig, event } = &ev {
                        if *sig == libc::SIGTRAP && *event == 0 && self.marker_at(tid).is_none() {
                            // the step itself; but it may have landed on the breakpoint address again
                            // (a one-instruction loop): that arrival is counted when the trap fires
                            continue;
                        }
                    }
                }
            }
            match ev {
                Ev::Timeout => {
                    lift(&mut bp_in);
                    return Outcome::Timeout;
                }
                Ev::Exited(how) => {
                    bp_in = false;
                    if tid == self.main_tid || self.threads[ti].client.is_some() {
                        return Outcome::Died(how);
                    }
                    self.threads[ti].state = TState::Finished;
                    return Outcome::Finished;
                }
                Ev::Stop { sig, event } => {
                    if event == PTRACE_EVENT_CLONE {
                        if self.adopt_new_thread(tid).is_some() {
                            self.info.extra_threads += 1;
                        }
                        if let Some((ua, v)) = watch {
                            if self.word_changed(tid, ua, v) {
                                lift(&mut bp_in);
                                return Outcome::WatchChanged;
                            }
                        }
                        continue;
                    }
                    if sig == (libc::SIGTRAP | 0x80) {
                        self.info.syscall_stops += 1;
                        let mut si: SyscallInfo = unsafe { std::mem::zeroed() };
                        let n = pt(PTRACE_GET_SYSCALL_INFO, tid, std::mem::size_of::<SyscallInfo>() as u64, &mut si as *mut _ as u64);
                        if n > 0 && si.op == 1 && si.nr_or_rval == SYS_FUTEX {
                            let cmd = si.args[1] & 0x7f;
                            if cmd == 0 || cmd == 9 {
                                let uaddr = si.args[0];
                                let val = si.args[2] as u32;
                                if !self.word_changed(tid, uaddr, val) {
                                    self.threads[ti].state = TState::Blocked { uaddr, val };
                                    self.info.blocked_events += 1;
                                    lift(&mut bp_in);
                                    return Outcome::Blocked;
                                }
                            }
                        }
                        if let Some((ua, v)) = watch {
                            if self.word_changed(tid, ua, v) {
                                lift(&mut bp_in);
                                return Outcome::WatchChanged;
                            }
                        }
                        continue;
                    }
                    if sig == libc::SIGTRAP && event == 0 {
                        let regs = match getregs(tid) {
                            Some(r) => r,
                            None => {
                                lift(&mut bp_in);
                                return Outcome::Died("cannot read registers".into());
                            }
                        };
                        if bp_in && Some(regs.rip.wrapping_sub(1)) == bp_addr {
                            self.info.breakpoint_hits += 1;
                            // back onto the instruction
                            let mut r2 = regs;
                            r2.rip = regs.rip - 1;
                            setregs(tid, &r2);
                            lift(&mut bp_in);
                            remaining -= 1;
                            if remaining == 0 {
                                return Outcome::ReachedStop;
                            }
                            need_reinsert = true;
                            continue;
                        }
                        if regs.rdx == MAGIC && peek_u8(tid, regs.rip.wrapping_sub(1)) == Some(0xcc) && regs.rsi == KIND_END {
                            lift(&mut bp_in);
                            self.threads[ti].state = TState::Finished;
                            return Outcome::Finished;
                        }
                        if regs.rdx == MAGIC && peek_u8(tid, regs.rip.wrapping_sub(1)) == Some(0xcc) {
                            continue; // a marker between two calls
                        }
                        // a trap of the code's own: hand it over
                        pending_sig = libc::SIGTRAP as u64;
                        continue;
                    }
                    if sig == libc::SIGSTOP && event == 0 {
                        continue;
                    }
                    pending_sig = sig as u64;
                }
            }
        }
    }

    /// Single-step client `c` from its start marker to its end marker, recording instruction addresses.
    fn profile(&mut self, c: usize) -> Outcome {
        let ti = match self.client(c) {
            Some(t) => t,
            None => return Outcome::Died("no such client".into()),
        };
        let tid = self.threads[ti].tid;
        let mut trace: Vec<u64> = Vec::with_capacity(32768);
        loop {
            if trace.len() >= PROFILE_CAP {
                break;
            }
            let regs = match getregs(tid) {
                Some(r) => r,
                None => return Outcome::Died("cannot read registers".into()),
            };
            trace.push(regs.rip);
            if pt(libc::PTRACE_SINGLESTEP, tid, 0, 0) != 0 {
                return Outcome::Died("cannot single-step".into());
            }
            self.info.single_steps += 1;
            match self.wait(tid) {
                Ev::Timeout => return Outcome::Timeout,
                Ev::Exited(how) => return Outcome::Died(how),
                Ev::Stop { sig, event } => {
                    if event == PTRACE_EVENT_CLONE {
                        if self.adopt_new_thread(tid).is_some() {
                            self.info.extra_threads += 1;
                        }
                        // a workload whose calls create threads is not profiled further
                        break;
                    }
                    if sig == libc::SIGTRAP {
                        if let Some((_, kind)) = self.marker_at(tid) {
                            if kind == KIND_END {
                                trace.pop(); // the marker itself
                                self.info.profile = trace;
                                self.threads[ti].state = TState::Finished;
                                return Outcome::Finished;
                            }
                            if kind == KIND_OP {
                                // the first call is enough: the rest of this caller's work runs unprofiled
                                trace.pop();
                                break;
                            }
                        }
                        continue;
                    }
                    // any other signal during profiling: give up profiling, let the normal path deal with it
                    break;
                }
            }
        }
        self.info.profile = trace;
        Outcome::ReachedStop
    }

    /// Run client `c` from where it stands to the end of its first call with a breakpoint on every
    /// address of `addrs`, counting arrivals. Nobody else has run yet, so nothing can block.
    fn discover(&mut self, c: usize, addrs: &[u64]) -> Outcome {
        let ti = match self.client(c) {
            Some(t) => t,
            None => return Outcome::Died("no such client".into()),
        };
        let tid = self.threads[ti].tid;
        let mut orig: BTreeMap<u64, u8> = BTreeMap::new();
        for a in addrs {
            if let Some(b) = peek_u8(tid, *a) {
                if b != 0xcc && poke_u8(tid, *a, 0xcc) {
                    orig.insert(*a, b);
                }
            }
        }
        let mut counts: BTreeMap<u64, u32> = BTreeMap::new();
        let mut result = Outcome::ReachedStop;
        let mut sig = 0u64;
        let mut hits = 0u32;
        loop {
            if pt(libc::PTRACE_SYSCALL, tid, 0, sig) != 0 {
                result = Outcome::Died("cannot resume thread".into());
                break;
            }
            sig = 0;
            match self.wait(tid) {
                Ev::Timeout => {
                    result = Outcome::Timeout;
                    break;
                }
                Ev::Exited(how) => return Outcome::Died(how),
                Ev::Stop { sig: s, event } => {
                    if event == PTRACE_EVENT_CLONE {
                        if self.adopt_new_thread(tid).is_some() {
                            self.info.extra_threads += 1;
                        }
                        continue;
                    }
                    if s == (libc::SIGTRAP | 0x80) {
                        self.info.syscall_stops += 1;
                        let mut si: SyscallInfo = unsafe { std::mem::zeroed() };
                        let n = pt(PTRACE_GET_SYSCALL_INFO, tid, std::mem::size_of::<SyscallInfo>() as u64, &mut si as *mut _ as u64);
                        if n > 0 && si.op == 1 && si.nr_or_rval == SYS_FUTEX {
                            let cmd = si.args[1] & 0x7f;
                            if (cmd == 0 || cmd == 9) && !self.word_changed(tid, si.args[0], si.args[2] as u32) {
                                // it waits for a caller that stands still: what it executed so far is the answer
                                self.threads[ti].state = TState::Blocked { uaddr: si.args[0], val: si.args[2] as u32 };
                                self.info.blocked_events += 1;
                                result = Outcome::Blocked;
                                break;
                            }
                        }
                        continue;
                    }
                    if s == libc::SIGTRAP && event == 0 {
                        let regs = match getregs(tid) {
                            Some(r) => r,
                            None => {
                                result = Outcome::Died("cannot read registers".into());
                                break;
                            }
                        };
                        let at = regs.rip.wrapping_sub(1);
                        if let Some(b) = orig.get(&at).copied() {
                            *counts.entry(at).or_insert(0) += 1;
                            hits += 1;
                            self.info.breakpoint_hits += 1;
                            // step over: original byte back, one instruction, breakpoint back
                            poke_u8(tid, at, b);
                            let mut r2 = regs;
                            r2.rip = at;
                            setregs(tid, &r2);
                            if hits > 20_000 {
                                // a hot loop: stop counting there
                                orig.remove(&at);
                                continue;
                            }
                            if pt(libc::PTRACE_SINGLESTEP, tid, 0, 0) != 0 {
                                result = Outcome::Died("cannot single-step".into());
                                break;
                            }
                            self.info.single_steps += 1;
                            match self.wait(tid) {
                                Ev::Stop { .. } => {}
                                Ev::Timeout => {
                                    result = Outcome::Timeout;
                                    break;
                                }
                                Ev::Exited(how) => return Outcome::Died(how),
                            }
                            poke_u8(tid, at, 0xcc);
                            // the step may itself have ended on a marker
                            if let Some((_, kind)) = self.marker_at(tid) {
                                if kind == KIND_END {
                                    self.threads[ti].state = TState::Finished;
                                    result = Outcome::Finished;
                                    break;
                                }
                            }
                            continue;
                        }
                        if regs.rdx == MAGIC && peek_u8(tid, at) == Some(0xcc) {
                            if regs.rsi == KIND_END {
                                self.threads[ti].state = TState::Finished;
                                result = Outcome::Finished;
                                break;
                            }
                            continue; // between two calls: all of this caller's calls are covered
                        }
                        sig = libc::SIGTRAP as u64;
                        continue;
                    }
                    if s == libc::SIGSTOP && event == 0 {
                        continue;
                    }
                    sig = s as u64;
                }
            }
        }
        for (a, b) in &orig {
            poke_u8(tid, *a, *b);
        }
        self.info.discovered = counts.into_iter().collect();
        result
    }

    /// Execute up to `n` further instructions of a stopped thread, one at a time. Stops early in front
    /// of a system call (it could block) or a marker.
    fn step_n(&mut self, ti: usize, n: u32) -> Outcome {
        let tid = self.threads[ti].tid;
        for _ in 0..n {
            let regs = match getregs(tid) {
                Some(r) => r,
                None => return Outcome::Died("cannot read registers".into()),
            };
            let next = peek(tid, regs.rip).unwrap_or(0);
            if (next & 0xffff) == 0x050f || ((next & 0xff) == 0xcc && regs.rdx == MAGIC) {
                break;
            }
            if pt(libc::PTRACE_SINGLESTEP, tid, 0, 0) != 0 {
                return Outcome::Died("cannot single-step".into());
            }
            self.info.single_steps += 1;
            match self.wait(tid) {
                Ev::Timeout => return Outcome::Timeout,
                Ev::Exited(how) => return Outcome::Died(how),
                Ev::Stop { sig, event } => {
                    if event == PTRACE_EVENT_CLONE {
                        if self.adopt_new_thread(tid).is_some() {
                            self.info.extra_threads += 1;
                        }
                        break;
                    }
                    if sig != libc::SIGTRAP {
                        // a signal of the code's own (a fault): let the normal path deliver it
                        break;
                    }
                }
            }
        }
        Outcome::ReachedStop
    }

    fn drive_thread(&mut self, ti: usize, stop: Option<(u64, u32)>) -> Outcome {
        let mut quiet_rounds = 0u32;
        loop {
            if self.threads[ti].state == TState::Finished {
                return Outcome::Finished;
            }
            if let TState::Blocked { uaddr, val } = self.threads[ti].state.clone() {
                let tid = self.threads[ti].tid;
                if !self.word_changed(tid, uaddr, val) {
                    // somebody else has to run until the word changes: threads the code created first,
                    // then the callers in index order
                    let mut order: Vec<usize> = (0..self.threads.len()).filter(|i| *i != ti && self.threads[*i].client.is_none() && self.threads[*i].tid != self.main_tid).collect();
                    let mut cl: Vec<usize> = (0..self.threads.len()).filter(|i| *i != ti && self.threads[*i].client.is_some()).collect();
                    cl.sort_by_key(|i| self.threads[*i].client);
                    order.extend(cl);
                    let mut helper = None;
                    for h in order {
                        match self.threads[h].state.clone() {
                            TState::Finished => continue,
                            TState::Blocked { uaddr: ua, val: v } => {
                                let htid = self.threads[h].tid;
                                if !self.word_changed(htid, ua, v) {
                                    continue;
                                }
                                helper = Some(h);
                                break;
                            }
                            TState::Stopped => {
                                helper = Some(h);
                                break;
                            }
                        }
                    }
                    let h = match helper {
                        Some(h) => h,
                        None => {
                            let who: Vec<String> = self.threads.iter().filter(|t| matches!(t.state, TState::Blocked { .. })).map(|t| match t.client {
                                Some(c) => format!("caller {}", c),
                                None => format!("thread {}", t.tid),
                            }).collect();
                            self.info.deadlock = Some(if who.len() == 1 {
                                format!("{} sleeps in a futex wait and nobody is left to run who could end it (a lost wake-up, or a lock never released)", who[0])
                            } else {
                                format!("{} sleep in futex waits and nobody else is left to run", who.join(", "))
                            });
                            return Outcome::Blocked;
                        }
                    };
                    self.info.helper_runs += 1;
                    match self.run_until(h, None, Some((uaddr, val))) {
                        Outcome::Died(how) => return Outcome::Died(how),
                        Outcome::Timeout => return Outcome::Timeout,
                        Outcome::Spinning => {
                            // the only thread that could release this one busy-waits itself
                            quiet_rounds += 1;
                            if quiet_rounds >= 30 {
                                self.info.deadlock = Some("a caller sleeps in a futex wait while the thread that could end it keeps busy-waiting".to_string());
                                return Outcome::Blocked;
                            }
                            continue;
                        }
                        _ => {
                            quiet_rounds = 0;
                            continue;
                        }
                    }
                }
            }
            match self.run_until(ti, stop, None) {
                Outcome::Blocked => continue,
                Outcome::Spinning => {
                    // it waits, busily, for something another thread must do: let the others run, each
                    // until its next event, and come back
                    quiet_rounds += 1;
                    let mut progressed = false;
                    let others: Vec<usize> = (0..self.threads.len()).filter(|i| *i != ti && self.threads[*i].tid != self.main_tid && self.threads[*i].state != TState::Finished).collect();
                    for h in others {
                        if let TState::Blocked { uaddr, val } = self.threads[h].state.clone() {
                            let htid = self.threads[h].tid;
                            if !self.word_changed(htid, uaddr, val) {
                                continue;
                            }
                        }
                        self.info.helper_runs += 1;
                        match self.run_until(h, None, None) {
                            Outcome::Died(how) => return Outcome::Died(how),
                            Outcome::Timeout => return Outcome::Timeout,
                            Outcome::Spinning => {}
                            _ => {
                                progressed = true;
                                break;
                            }
                        }
                    }
                    if progressed {
                        quiet_rounds = 0;
                    } else if quiet_rounds >= 30 {
                        // about five seconds of spinning and nobody else can make a step
                        let who = match self.threads[ti].client {
                            Some(c) => format!("caller {}", c),
                            None => format!("thread {}", self.threads[ti].tid),
                        };
                        self.info.deadlock = Some(format!("{} keeps busy-waiting and nobody is left to run who could end it (a livelock: a flag never cleared, a spin lock never released)", who));
                        return Outcome::Blocked;
                    }
                    continue;
                }
                other => return other,
            }
        }
    }

    /// Execute the plan, then run every caller to its end marker.
    pub fn drive(&mut self, plan: &PtracePlan, nclients: usize) {
        let fail = |info: &mut TraceInfo, o: &Outcome| match o {
            Outcome::Died(how) => {
                info.died = Some(how.clone());
                true
            }
            Outcome::Timeout => {
                info.timeout = true;
                true
            }
            _ => false,
        };
        if let Some(c) = plan.profile {
            let o = self.profile(c as usize);
            if fail(&mut self.info, &o) {
                return;
            }
        }
        if let (Some(c), false) = (plan.discover, plan.discover_late) {
            let addrs: Vec<u64> = DISCOVER_ADDRS.with(|d| d.borrow().clone());
            let o = self.discover(c as usize, &addrs);
            if fail(&mut self.info, &o) {
                return;
            }
        }
        for seg in &plan.segs {
            let ti = match self.client(seg.thread as usize) {
                Some(t) => t,
                None => continue,
            };
            if self.threads[ti].state == TState::Finished {
                if seg.stop.is_some() {
                    self.info.stops_missed += 1;
                }
                continue;
            }
            let o = self.drive_thread(ti, seg.stop);
            if fail(&mut self.info, &o) || self.info.deadlock.is_some() {
                return;
            }
            if seg.stop.is_some() {
                if o == Outcome::ReachedStop {
                    self.info.stops_reached += 1;
                    if seg.plus > 0 {
                        let o2 = self.step_n(ti, seg.plus);
                        if fail(&mut self.info, &o2) {
                            return;
                        }
                    }
                } else {
                    self.info.stops_missed += 1;
                }
            }
        }
        if let (Some(c), true) = (plan.discover, plan.discover_late) {
            let addrs: Vec<u64> = DISCOVER_ADDRS.with(|d| d.borrow().clone());
            let o = self.discover(c as usize, &addrs);
            if fail(&mut self.info, &o) {
                return;
            }
        }
        for c in 0..nclients {
            if let Some(ti) = self.client(c) {
                let o = self.drive_thread(ti, None);
                if fail(&mut self.info, &o) || self.info.deadlock.is_some() {
                    return;
                }
            }
        }
    }

    /// Let the whole process go: everything is parked, nothing is left to schedule.
    pub fn release(&mut self) {
        for t in &self.threads {
            pt(libc::PTRACE_DETACH, t.tid, 0, 0);
        }
        pt(libc::PTRACE_DETACH, self.main_tid, 0, 0);
    }

    /// End the process. Every traced thread has to be collected by the tracer before the status of
    /// the thread-group leader becomes available to `waitpid(pid)`.
    pub fn kill(&mut self) {
        unsafe { libc::kill(self.pid, libc::SIGKILL) };
        for t in &self.threads {
            if t.tid != self.pid {
                let mut status = 0i32;
                loop {
                    let r = unsafe { libc::waitpid(t.tid, &mut status, libc::__WALL) };
                    if r < 0 || libc::WIFEXITED(status) || libc::WIFSIGNALED(status) {
                        break;
                    }
                }
            }
        }
    }

    pub fn into_info(self) -> TraceInfo {
        self.info
    }
}

/// Tracer entry point used by `e1::exec_in_child` for runs that carry a ptrace plan. Returns the
/// trace information; `ok` = the process was released and will write its report.
pub fn trace_child(pid: i32, plan: &PtracePlan, nclients: usize) -> (TraceInfo, bool) {
    // (a profile is tens of thousands of single steps; on a loaded machine a step costs up to 0.2 ms)
    let deadline = Instant::now() + Duration::from_secs(if plan.profile.is_some() { 90 } else { 30 });
    trace_child_inner(pid, plan, nclients, deadline)
}

fn trace_child_inner(pid: i32, plan: &PtracePlan, nclients: usize, deadline: Instant) -> (TraceInfo, bool) {
    let mut tr = match Tracer::setup(pid, nclients, deadline) {
        Ok(t) => t,
        Err(e) => {
            unsafe { libc::kill(pid, libc::SIGKILL) };
            // collect whatever thread of that process reports before its leader can be reaped
            // (this worker's only other child, the oracle server, does not change state)
            loop {
                let mut status = 0i32;
                let r = unsafe { libc::waitpid(-1, &mut status, libc::__WALL) };
                if r < 0 || (r == pid && (libc::WIFEXITED(status) || libc::WIFSIGNALED(status))) {
                    break;
                }
            }
            let mut info = TraceInfo::default();
            info.setup_error = Some(e);
            return (info, false);
        }
    };
    tr.drive(plan, nclients);
    let bad = tr.info.deadlock.is_some() || tr.info.died.is_some() || tr.info.timeout;
    if bad {
        tr.kill();
    } else {
        tr.release();
    }
    (tr.into_info(), !bad)
}

// ---------------------------------------------------------------------------------------------
// where the library's code is: function address ranges from the symbol table
// ---------------------------------------------------------------------------------------------

pub struct Symbols {
    /// (start, end, is_library, demangled name)
    ranges: Vec<(u64, u64, bool, String)>,
    /// instructions that name a writable static (.data / .bss) or carry a lock prefix / exchange with
    /// memory: the places where a thread touches memory that is not its own by construction
    shared_access: BTreeSet<u64>,
    /// the subset of those that touch the statics of the library's own verification hook module
    hook_access: BTreeSet<u64>,
}

impl Symbols {
    /// Link-time addresses in a file written once per batch (`jlsim e5-symbols`), or computed here.
    pub fn load_cached(path: Option<String>) -> Symbols {
        if let Some(p) = path {
            if let Some(v) = std::fs::read_to_string(&p).ok().and_then(|t| serde_json::from_str::<Value>(&t).ok()) {
                let base = Self::load_bias();
                let mut ranges = Vec::new();
                for r in v.get("ranges").and_then(|r| r.as_array()).cloned().unwrap_or_default() {
                    if let (Some(a), Some(b), Some(l)) = (r.get(0).and_then(|x| x.as_u64()), r.get(1).and_then(|x| x.as_u64()), r.get(2).and_then(|x| x.as_bool())) {
                        ranges.push((base + a, base + b, l, r.get(3).and_then(|x| x.as_str()).unwrap_or("").to_string()));
                    }
                }
                let shared_access: BTreeSet<u64> = v.get("shared").and_then(|r| r.as_array()).cloned().unwrap_or_default().iter().filter_map(|x| x.as_u64()).map(|a| base + a).collect();
                let hook_access: BTreeSet<u64> = v.get("hook").and_then(|r| r.as_array()).cloned().unwrap_or_default().iter().filter_map(|x| x.as_u64()).map(|a| base + a).collect();
                if !ranges.is_empty() {
                    return Symbols { ranges, shared_access, hook_access };
                }
            }
        }
        Self::load()
    }
    pub fn write_cache(path: &str) -> bool {
        let s = Self::load();
        let base = Self::load_bias();
        let doc = json!({
            "ranges": s.ranges.iter().map(|r| json!([r.0 - base, r.1 - base, r.2, r.3])).collect::<Vec<_>>(),
            "shared": s.shared_access.iter().map(|a| a - base).collect::<Vec<_>>(),
            "hook": s.hook_access.iter().map(|a| a - base).collect::<Vec<_>>(),
        });
        std::fs::write(path, doc.to_string()).is_ok()
    }
    fn load_bias() -> u64 {
        let exe = std::fs::read_link("/proc/self/exe").ok();
        if let (Some(exe), Ok(maps)) = (&exe, std::fs::read_to_string("/proc/self/maps")) {
            let name = exe.to_string_lossy();
            for l in maps.lines() {
                if l.ends_with(&*name) {
                    if let Some(a) = l.split('-').next().and_then(|a| u64::from_str_radix(a, 16).ok()) {
                        let off = l.split_whitespace().nth(2).and_then(|o| u64::from_str_radix(o, 16).ok()).unwrap_or(0);
                        return a - off;
                    }
                }
            }
        }
        0
    }
    pub fn load() -> Symbols {
        let mut ranges = Vec::new();
        let exe = std::fs::read_link("/proc/self/exe").ok();
        // load bias of the executable: lowest mapping of the file
        let mut hook_statics: Vec<(u64, u64)> = Vec::new();
        let mut base = 0u64;
        if let (Some(exe), Ok(maps)) = (&exe, std::fs::read_to_string("/proc/self/maps")) {
            let name = exe.to_string_lossy();
            for l in maps.lines() {
                if l.ends_with(&*name) {
                    if let Some(a) = l.split('-').next().and_then(|a| u64::from_str_radix(a, 16).ok()) {
                        let off = l.split_whitespace().nth(2).and_then(|o| u64::from_str_radix(o, 16).ok()).unwrap_or(0);
                        base = a - off;
                        break;
                    }
                }
            }
        }
        if let Some(exe) = exe {
            if let Ok(out) = std::process::Command::new("nm").arg("-S").arg("-C").arg("--defined-only").arg(&exe).output() {
                for l in String::from_utf8_lossy(&out.stdout).lines() {
                    let mut it = l.splitn(4, ' ');
                    let (a, s, k, n) = (it.next(), it.next(), it.next(), it.next());
                    if let (Some(a), Some(s), Some(k), Some(n)) = (a, s, k, n) {
                        if ["b", "B", "d", "D"].contains(&k) {
                            if let (Ok(a), Ok(s)) = (u64::from_str_radix(a, 16), u64::from_str_radix(s, 16)) {
                                if n.contains("jsonlogic_rs::verif") {
                                    hook_statics.push((a, a + s.max(1)));
                                }
                            }
                            continue;
                        }
                        if k != "t" && k != "T" && k != "W" && k != "w" {
                            continue;
                        }
                        if let (Ok(a), Ok(s)) = (u64::from_str_radix(a, 16), u64::from_str_radix(s, 16)) {
                            let lib = n.contains("jsonlogic_rs::") || n.contains("jsonlogic_rs..");
                            ranges.push((base + a, base + a + s, lib, n.to_string()));
                        }
                    }
                }
            }
        }
        ranges.sort();
        let mut shared_access = BTreeSet::new();
        let mut hook_access = BTreeSet::new();
        if let Some(exe) = std::fs::read_link("/proc/self/exe").ok() {
            // writable static sections (link-time addresses)
            let mut writable: Vec<(u64, u64)> = Vec::new();
            // position-independent code often reaches a static through a pointer in the GOT: such a load
            // counts when the pointer (read from this very process: same binary, same layout) leads
            // into .data / .bss
            let mut got: (u64, u64) = (0, 0);
            if let Ok(out) = std::process::Command::new("readelf").arg("-S").arg("-W").arg(&exe).output() {
                for l in String::from_utf8_lossy(&out.stdout).lines() {
                    let l = l.trim_start().trim_start_matches('[').trim_start();
                    let mut it = l.split_whitespace();
                    let _nr = it.next();
                    let (name, _ty, addr, _off, size) = (it.next(), it.next(), it.next(), it.next(), it.next());
                    if let (Some(name), Some(addr), Some(size)) = (name, addr, size) {
                        if name == ".data" || name == ".bss" {
                            if let (Ok(a), Ok(sz)) = (u64::from_str_radix(addr, 16), u64::from_str_radix(size, 16)) {
                                writable.push((a, a + sz));
                            }
                        }
                        if name == ".got" {
                            if let (Ok(a), Ok(sz)) = (u64::from_str_radix(addr, 16), u64::from_str_radix(size, 16)) {
                                got = (a, a + sz);
                            }
                        }
                    }
                }
            }
            if let Ok(out) = std::process::Command::new("objdump").arg("-d").arg("--no-show-raw-insn").arg("-j").arg(".text").arg(&exe).output() {
                for l in String::from_utf8_lossy(&out.stdout).lines() {
                    let (addr_part, rest) = match l.split_once(":\t") {
                        Some(x) => x,
                        None => continue,
                    };
                    let addr = match u64::from_str_radix(addr_part.trim(), 16) {
                        Ok(a) => a,
                        Err(_) => continue,
                    };
                    let insn = rest.trim_start();
                    let mut hot = insn.starts_with("lock ") || insn.starts_with("cmpxchg") || (insn.starts_with("xchg") && insn.contains('('));
                    if !hot {
                        if let Some((_, c)) = rest.split_once("# ") {
                            if let Some(t) = c.split_whitespace().next().and_then(|t| u64::from_str_radix(t, 16).ok()) {
                                let mut target = t;
                                hot = writable.iter().any(|(a, b)| t >= *a && t < *b);
                                if !hot && t >= got.0 && t + 8 <= got.1 && base != 0 && !insn.starts_with("call") && !insn.starts_with("jmp") {
                                    let p = unsafe { std::ptr::read_volatile((base + t) as *const u64) };
                                    let rel = p.wrapping_sub(base);
                                    hot = writable.iter().any(|(a, b)| rel >= *a && rel < *b);
                                    target = rel;
                                }
                                if hot && hook_statics.iter().any(|(a, b)| target >= *a && target < *b) {
                                    hook_access.insert(base + addr);
                                }
                            }
                        }
                    }
                    if hot {
                        shared_access.insert(base + addr);
                    }
                }
            }
        }
        Symbols { ranges, shared_access, hook_access }
    }
    pub fn is_shared_access(&self, rip: u64) -> bool {
        self.shared_access.contains(&rip)
    }
    /// A shared-access instruction inside the library proper (not in its verification hook module):
    /// the instructions right after it are stop candidates too (a static's neighbour reached through
    /// the same base register is not recognisable from the disassembly).
    pub fn is_library_shared_access(&self, rip: u64) -> bool {
        self.is_shared_access(rip) && self.is_library(rip) && !self.hook_access.contains(&rip) && !self.describe(rip).contains("::verif::")
    }
    pub fn shared_access_addrs(&self) -> Vec<u64> {
        self.shared_access.iter().copied().collect()
    }
    pub fn shared_access_known(&self) -> usize {
        self.shared_access.len()
    }
    pub fn is_library(&self, rip: u64) -> bool {
        let i = self.ranges.partition_point(|r| r.0 <= rip);
        if i == 0 {
            return false;
        }
        let r = &self.ranges[i - 1];
        rip < r.1 && r.2
    }
    /// "function+offset" for an instruction address.
    pub fn describe(&self, rip: u64) -> String {
        let i = self.ranges.partition_point(|r| r.0 <= rip);
        if i > 0 {
            let r = &self.ranges[i - 1];
            if rip < r.1 {
                let mut n = r.3.clone();
                if n.len() > 120 {
                    let mut cut = 120;
                    while !n.is_char_boundary(cut) {
                        cut -= 1;
                    }
                    n.truncate(cut);
                }
                return format!("{}+{:#x}", n, rip - r.0);
            }
        }
        "?".into()
    }
    pub fn known(&self) -> usize {
        self.ranges.len()
    }
}

/// Candidate stops from a profile: every distinct address with the number of times it was executed.
pub fn candidates(profile: &[u64]) -> BTreeMap<u64, u32> {
    let mut m = BTreeMap::new();
    for r in profile {
        *m.entry(*r).or_insert(0u32) += 1;
    }
    m
}

// ---------------------------------------------------------------------------------------------
// batch: seeded workloads, profiles, sampled and swept preemption points
// ---------------------------------------------------------------------------------------------

use crate::e1::{self, E1Run, Violation};
use crate::oracle::Oracle;
use crate::prng::{self, Rng};
use crate::sched::Strategy;
use std::collections::BTreeSet;

fn bump(m: &mut BTreeMap<String, u64>, k: &str, by: u64) {
    *m.entry(k.to_string()).or_insert(0) += by;
}

/// A small multi-thread workload drawn from the E1 families: 2-3 callers, 1-3 short calls each.
fn gen_small(seed: u64, corpus: &crate::gen::Corpus, oracle: &mut Oracle) -> Option<E1Run> {
    let params = e1::GenParams { deep_levels: (3, 8), max_threads: 3, long_history_pct: 0 };
    let mut run = e1::gen_run(seed, &params, corpus, oracle);
    let mut rng = Rng::new(prng::mix(seed, &[0xe5]));
    let mut ops: Vec<Vec<Op>> = Vec::new();
    for tl in &run.threads {
        let mut keep = Vec::new();
        for op in tl {
            let iso = oracle.query(op, e1::ORACLE_STACK_KB);
            let size: usize = op.args.iter().map(|a| a.len()).sum();
            if matches!(iso.res, Res::Crash(_)) || iso.steps > 40 || size > 320 {
                continue;
            }
            keep.push(op.clone());
        }
        ops.push(keep);
    }
    if ops.iter().filter(|t| !t.is_empty()).count() < 2 {
        // spread one caller's calls over two callers
        let all: Vec<Op> = ops.into_iter().flatten().collect();
        if all.len() < 2 {
            return None;
        }
        let mut two = vec![Vec::new(), Vec::new()];
        for (i, op) in all.into_iter().enumerate() {
            two[i % 2].push(op);
        }
        ops = two;
    }
    ops.retain(|t| !t.is_empty());
    ops.truncate(3);
    let per = if rng.chance(1, 4) { 3 } else { 2 };
    for t in ops.iter_mut() {
        t.truncate(per);
    }
    let n = ops.len();
    run.threads = ops;
    run.stack_kb = vec![2048; n];
    run.fault = None;
    run.ambient = crate::ambient::Ambient::default();
    run.alloc_yield = false;
    run.tid_offset = 0;
    run.schedule = None;
    run.strategy = Strategy::Sequential((0..n as u8).collect());
    Some(run)
}

const NUMERIC_STRINGS: &[&str] = &["1", "2", "1.5", "2.5", "-3", "10", "0.25", "7", " 4 ", "1e3", "12px", "0x10", "3.", ".5", "+5", "99", "1234567", "-0", "6e1", "42"];
const WORDS: &[&str] = &["apple", "pear", "fig", "kiwi", "plum", "lime", "é", "日本", "ab", "abc", "b", "x.y", "hello world", "Aa", "BB"];
const PATHS: &[&str] = &["a", "b", "a.b", "a.c", "s.1", "s.0", "t.v", "t.w.0", "t.w.1", "u.v.w", "n", "l.0", "l.2", "l.1.z", "k", "a\\.b"];
const SHARED_DATA: &str = r#"{"a":{"b":1,"c":"two"},"b":[3,4],"s":["p","q","r"],"t":{"v":5,"w":[6,7]},"u":{"v":{"w":"deep"}},"n":"12","l":[{"z":0},{"z":1},"8"],"k":null,"a.b":"dotted"}"#;

/// One operator (or coercion helper), several callers, each with operands of its own: whatever a
/// leaf keeps between or across calls is written by one caller and read by another.
fn gen_one_operator(seed: u64, index: u64) -> (E1Run, Vec<Op>) {
    let mut rng = Rng::new(prng::mix(seed, &[0x10e5]));
    let nthreads = if rng.chance(1, 4) { 3 } else { 2 };
    // operator and operand style are stratified over the workload index (every operator and helper
    // comes round at the same rate, each time with the next style), everything else is drawn
    let mut all_ops: Vec<(&str, bool)> = Vec::new();
    for o in crate::gen::EAGER_OPS.iter().chain(crate::gen::DATA_OPS).chain(crate::gen::LAZY_OPS) {
        all_ops.push((*o, false));
    }
    for h in ops::HELPERS_1.iter().chain(ops::HELPERS_2).chain(ops::HELPERS_N) {
        all_ops.push((*h, true));
    }
    let (name, helper) = all_ops[(index as usize) % all_ops.len()];
    let opname: String = name.to_string();
    // a quarter of the operator workloads give every caller an operator of its own from one family
    // (two code paths around the same state: lock order, a table one fills and the other reads)
    const FAMILIES: &[&[&str]] = &[
        &["map", "filter", "all", "some", "none", "reduce"],
        &["+", "-", "*", "/", "%", "max", "min"],
        &["==", "!=", "===", "!==", "<", "<=", ">", ">="],
        &["cat", "substr", "in", "merge"],
        &["if", "?:", "and", "or", "!", "!!"],
        &["var", "missing", "missing_some"],
    ];
    let family: Option<&[&str]> = if !helper && rng.chance(1, 4) { FAMILIES.iter().find(|f| f.contains(&opname.as_str())).copied() } else { None };
    // operand style of this workload: numeric strings, words, numbers, mixed
    let style = [0usize, 1, 0, 3, 2][((index as usize) / all_ops.len()) % 5];
    let draw = |rng: &mut Rng| -> Value {
        match if style == 3 { rng.below(3) } else { style } {
            0 => json!(*rng.pick(NUMERIC_STRINGS)),
            1 => json!(*rng.pick(WORDS)),
            _ => match rng.below(6) {
                0 => json!(rng.below(20) as i64 - 5),
                1 => json!(1.5),
                2 => json!(rng.below(1000) as i64),
                3 => Value::Bool(rng.chance(1, 2)),
                4 => Value::Null,
                _ => json!(0.25 * rng.below(40) as f64),
            },
        }
    };
    let mut threads: Vec<Vec<Op>> = Vec::new();
    let shared_data = rng.chance(2, 3);
    // the *shape* of the call (which form of the operator, which body, how many operands) is drawn
    // once per workload; callers and the history differ in operand values only
    let shape_seed = rng.next_u64();
    // a fifth of the workloads: *many* operands (10-20 per call, drawn with repeats from 6-10 values per
    // caller) for the operators that take a list: small fixed-size tables are then hit in every slot by
    // every caller
    let many = rng.chance(1, 5);
    let mk_op = |rng: &mut Rng, palette: &Vec<Value>, fresh: bool| -> Op {
        let mut sh = Rng::new(shape_seed);
        let scalar = |rng: &mut Rng| -> Value { palette[rng.below(palette.len())].clone() };
        if helper {
            let h = opname.as_str();
            if ops::HELPERS_1.contains(&h) {
                Op::helper(h, vec![scalar(rng).to_string()], fresh)
            } else if ops::HELPERS_2.contains(&h) {
                Op::helper(h, vec![scalar(rng).to_string(), scalar(rng).to_string()], fresh)
            } else {
                let n = if many { sh.range(10, 20) } else { sh.range(1, 4) };
                let xs: Vec<Value> = (0..n).map(|_| scalar(rng)).collect();
                Op::helper(h, vec![Value::Array(xs).to_string()], fresh)
            }
        } else {
            let o: &str = match family {
                Some(f) => *rng.pick(f),
                None => opname.as_str(),
            };
            let path = |rng: &mut Rng| json!(*rng.pick(PATHS));
            let small_array = |rng: &mut Rng, scalar: &dyn Fn(&mut Rng) -> Value| -> Value {
                let n = rng.range(2, 4);
                Value::Array((0..n).map(|_| scalar(rng)).collect())
            };
            let rule: Value = match o {
                "var" => match sh.below(3) {
                    0 => json!({"var": path(rng)}),
                    1 => json!({"var": [path(rng), scalar(rng)]}),
                    _ => json!({"cat": [{"var": path(rng)}, "/", {"var": path(rng)}]}),
                },
                "missing" => json!({"missing": [path(rng), path(rng), "zz"]}),
                "missing_some" => json!({"missing_some": [1, [path(rng), "zz", path(rng)]]}),
                "map" | "filter" | "all" | "some" | "none" => {
                    // (bodies whose outcome depends on *which* elements are iterated, not only on how many)
                    let body = match sh.below(8) {
                        0 => json!({"+": [{"var": ""}, scalar(rng)]}),
                        1 => json!({"<": [{"var": ""}, scalar(rng)]}),
                        2 => json!({"substr": [{"var": ""}, 1]}),
                        3 | 4 | 5 => json!({"in": [{"var": ""}, scalar(rng)]}),
                        6 => json!({"==": [{"var": ""}, scalar(rng)]}),
                        _ => json!({"var": ""}),
                    };
                    // (a string is iterated character by character: half of the time the operand is one)
                    let items = if sh.chance(1, 2) { scalar(rng) } else { small_array(rng, &scalar) };
                    json!({ o: [items, body] })
                }
                "reduce" => json!({"reduce": [small_array(rng, &scalar), {"+": [{"var": "current"}, {"var": "accumulator"}]}, scalar(rng)]}),
                "if" | "?:" => json!({ o: [scalar(rng), scalar(rng), scalar(rng)] }),
                "substr" => json!({"substr": [scalar(rng), rng.below(4) as i64 - 1, rng.below(4) as i64 - 1]}),
                "in" => {
                    if sh.chance(1, 2) {
                        json!({"in": [scalar(rng), small_array(rng, &scalar)]})
                    } else {
                        json!({"in": [scalar(rng), *rng.pick(WORDS)]})
                    }
                }
                "merge" => json!({"merge": [small_array(rng, &scalar), scalar(rng)]}),
                "!" | "!!" | "log" => json!({ o: [scalar(rng)] }),
                "-" | "/" | "%" | "==" | "!=" | "===" | "!==" => json!({ o: [scalar(rng), scalar(rng)] }),
                _ => {
                    let n = if many { sh.range(10, 20) } else { sh.range(2, 3) };
                    json!({ o: (0..n).map(|_| scalar(rng)).collect::<Vec<_>>() })
                }
            };
            // operands through `var` half the time: data-driven leaves
            let data: String = if shared_data { serde_json::from_str::<Value>(SHARED_DATA).expect("shared data").to_string() } else { json!({"a": scalar(rng), "b": scalar(rng)}).to_string() };
            Op::apply(&rule.to_string(), &data, fresh)
        }
    };
    for _ in 0..nthreads {
        let fresh = rng.chance(1, 4);
        // a caller's operands come from a palette of its own of one to three values: the same value
        // meets the same leaf several times in a row, other callers bring other values
        let k = if many { rng.range(6, 10) } else { 1 + rng.weighted(&[40, 40, 20]) };
        let palette: Vec<Value> = (0..k).map(|_| draw(&mut rng)).collect();
        let op = mk_op(&mut rng, &palette, fresh);
        // each caller makes its call twice (a value remembered wrongly shows at the second call)
        let reps = if rng.chance(3, 4) { 2 } else { 1 };
        threads.push((0..reps).map(|_| op.clone()).collect());
    }
    // a fifth of the workloads: every caller makes the very same call (whatever coalesces or shares
    // work between identical evaluations in flight is exercised only then)
    let identical = rng.chance(1, 5);
    if identical {
        let first = threads[0].clone();
        for t in threads.iter_mut().skip(1) {
            *t = first.clone();
        }
    }
    // two fifths of the workloads: a history first. Caller 0 makes 9-24 calls of the same kind with values
    // of their own before the scheduled part, so that whatever has a capacity is full when it begins
    let mut warmup: Vec<Op> = Vec::new();
    if rng.chance(2, 5) {
        let count = rng.range(9, 24);
        for j in 0..count {
            let v = match style {
                0 => json!(NUMERIC_STRINGS[j % NUMERIC_STRINGS.len()]),
                1 => json!(WORDS[j % WORDS.len()]),
                _ => json!(format!("w{}", j)),
            };
            let mut op = mk_op(&mut rng, &vec![v], true);
            op.fresh = true;
            warmup.push(op);
        }
    }
    let n = threads.len();
    (E1Run {
        seed,
        threads,
        stack_kb: vec![2048; n],
        strategy: Strategy::Sequential((0..n as u8).collect()),
        fault: None,
        ambient: crate::ambient::Ambient::default(),
        schedule: None,
        shape: if family.is_some() { "operator-family-many-callers".to_string() } else { format!("one-operator-many-callers:{}", if helper { "helper" } else { "operator" }) },
        alloc_yield: false,
        tid_offset: 0,
        ptrace: None,
    }, warmup)
}

fn remap_plan(plan: &PtracePlan, removed: usize) -> PtracePlan {
    let mut segs = Vec::new();
    for s in &plan.segs {
        let t = s.thread as usize;
        if t == removed {
            continue;
        }
        segs.push(Seg { thread: if t > removed { s.thread - 1 } else { s.thread }, stop: s.stop, plus: s.plus });
    }
    PtracePlan { segs, profile: None, discover: None, discover_late: false, warmup: plan.warmup.clone() }
}

/// Minimise by execution: drop whole callers, then single calls, while the same class of violation persists.
fn shrink_traced(run: &E1Run, target: &Violation, oracle: &mut Oracle, budget: usize) -> (E1Run, Violation, usize) {
    let mut best = run.clone();
    let mut best_v = target.clone();
    let mut execs = 0;
    let same = |v: &Violation| v.property == target.property && v.class == target.class;
    let mut try_run = |cand: &E1Run, oracle: &mut Oracle, execs: &mut usize| -> Option<Violation> {
        *execs += 1;
        let (isos, _) = e1::isolate(cand, oracle);
        let rep = e1::exec_in_child(cand, &isos);
        rep.violations.iter().find(|v| same(v)).cloned()
    };
    // the history first: none of it, then half of it
    loop {
        let w = best.ptrace.as_ref().map(|p| p.warmup.len()).unwrap_or(0);
        if w == 0 || execs >= budget {
            break;
        }
        let mut improved = false;
        for keep in [0, w / 2] {
            if keep >= w {
                continue;
            }
            let mut c = best.clone();
            if let Some(p) = c.ptrace.as_mut() {
                p.warmup.truncate(keep);
            }
            if let Some(v) = try_run(&c, oracle, &mut execs) {
                best = c;
                best_v = v;
                improved = true;
                break;
            }
        }
        if !improved {
            break;
        }
    }
    let mut ti = 0;
    while ti < best.threads.len() && best.threads.len() > 2 && execs < budget {
        let mut c = best.clone();
        c.threads.remove(ti);
        c.stack_kb.remove(ti);
        c.ptrace = best.ptrace.as_ref().map(|p| remap_plan(p, ti));
        c.strategy = Strategy::Sequential((0..c.threads.len() as u8).collect());
        if let Some(v) = try_run(&c, oracle, &mut execs) {
            best = c;
            best_v = v;
        } else {
            ti += 1;
        }
    }
    for ti in 0..best.threads.len() {
        let mut oi = best.threads[ti].len();
        while oi > 0 && execs < budget {
            oi -= 1;
            if best.threads[ti].len() <= 1 {
                break;
            }
            let mut c = best.clone();
            c.threads[ti].remove(oi);
            if let Some(v) = try_run(&c, oracle, &mut execs) {
                best = c;
                best_v = v;
            }
        }
    }
    (best, best_v, execs)
}

pub fn main(a: &crate::Args) -> i32 {
    let seed = a.u64("seed", 1);
    let tier = a.str("tier", "quick");
    let worker = a.u64("worker", 0);
    let workers = a.u64("workers", 1).max(1);
    let seconds = a.f64("seconds", 10.0);
    let max_workloads = a.u64("max-runs", u64::MAX);
    let out_path = a.str("out", "/dev/stdout");
    let replay_dir = a.str("replay-dir", ".");
    let det_every = a.u64("determinism-every", 0);
    let sweep_every = a.u64("sweep-every", 0);
    let per_victim = a.u64("runs-per-victim", if tier == "thorough" { 300 } else { 120 });
    // every n-th workload also gets a single-stepped profile and stops sampled from it
    let profile_every = a.u64("profile-every", if tier == "thorough" { 6 } else { 8 });
    let max_violations = a.u64("max-violations", 6) as usize;
    let started = Instant::now();

    crate::save_diag_fd();
    hooks::install();
    let mut oracle = Oracle::start();
    let corpus = crate::gen::Corpus::load();
    let symbols = Symbols::load_cached(if a.has("symbols") { Some(a.str("symbols", "")) } else { None });

    set_discover_addrs(symbols.shared_access_addrs());
    let mut runs = 0u64;
    let mut workloads = 0u64;
    let mut sums: BTreeMap<String, u64> = BTreeMap::new();
    let mut shapes: BTreeMap<String, u64> = BTreeMap::new();
    let mut faults: BTreeMap<String, u64> = BTreeMap::new();
    let mut points: BTreeSet<u64> = BTreeSet::new();
    let mut operators: BTreeSet<String> = BTreeSet::new();
    let mut violations: Vec<Value> = Vec::new();
    let mut seen_sigs: BTreeSet<String> = BTreeSet::new();
    let mut harness_errors: Vec<String> = Vec::new();
    let mut notes: Vec<String> = Vec::new();
    let mut samples: Vec<Value> = Vec::new();
    let mut det_checked = 0u64;
    let mut det_mismatch = 0u64;
    let dump_hashes = a.has("dump-hashes");
    let mut hashes: BTreeMap<String, String> = BTreeMap::new();
    if symbols.known() == 0 {
        notes.push("no symbol table: preemption points are not weighted towards library code".into());
    }

    // --workload FILE: sweep one given workload ({"threads": [[op, ...], ...]}) instead of drawing workloads
    let fixed_workload: Option<E1Run> = if a.has("workload") {
        match std::fs::read_to_string(a.str("workload", "")).ok().and_then(|t| serde_json::from_str::<Value>(&t).ok()).and_then(|v| E1Run::from_json(&v)) {
            Some(mut r) => {
                r.shape = "one-operator-given".into();
                r.ptrace = None;
                Some(r)
            }
            None => {
                eprintln!("cannot read workload file");
                return 2;
            }
        }
    } else {
        None
    };
    let fixed_warmup: Vec<Op> = if a.has("workload") {
        std::fs::read_to_string(a.str("workload", "")).ok().and_then(|t| serde_json::from_str::<Value>(&t).ok()).and_then(|v| v.get("warmup").and_then(|w| w.as_array().cloned())).map(|a| a.iter().filter_map(Op::from_json).collect()).unwrap_or_default()
    } else {
        Vec::new()
    };
    let max_workloads = if fixed_workload.is_some() { 1 } else { max_workloads };
    let sweep_every = if fixed_workload.is_some() { 1 } else { sweep_every };
    let mut i = worker;
    'outer: while workloads < max_workloads && (started.elapsed().as_secs_f64() < seconds || workloads == 0) && violations.len() < max_violations {
        let wl_seed = prng::mix(seed, &[crate::tier_id(&tier), 5, i]);
        let wl_index = i;
        let mut in_wl = 0u64;
        i += workers;
        let (run, warmup): (E1Run, Vec<Op>) = if let Some(r) = &fixed_workload {
            (r.clone(), fixed_warmup.clone())
        } else if prng::mix(wl_seed, &[0x5e1]) % 5 < 3 {
            gen_one_operator(wl_seed, wl_index + prng::mix(seed, &[0x0ff5e7]) % 1000)
        } else {
            match gen_small(wl_seed, &corpus, &mut oracle) {
                Some(r) => (r, Vec::new()),
                None => continue,
            }
        };
        if !warmup.is_empty() {
            bump(&mut sums, "workloads_with_a_history_before_the_scheduled_part", 1);
        }
        if a.has("dry-run") {
            // development aid: print the workloads, execute nothing
            println!("{}", json!({"index": wl_index, "shape": run.shape, "threads": run.threads.iter().map(|t| t.iter().map(|o| o.short()).collect::<Vec<_>>()).collect::<Vec<_>>(), "warmup": warmup.iter().map(|o| o.short()).collect::<Vec<_>>()}));
            workloads += 1;
            continue;
        }
        let (isos, found0) = e1::isolate(&run, &mut oracle);
        if !found0.is_empty() || isos.iter().flatten().any(|x| matches!(x.res, Res::Crash(_))) {
            continue; // input-only defects are E1's business
        }
        workloads += 1;
        for s in run.shape.split('+') {
            bump(&mut shapes, s, 1);
        }
        if run.shape.starts_with("one-operator") {
            if let Some(op) = run.threads[0].first() {
                let name = if op.is_apply() {
                    serde_json::from_str::<Value>(&op.args[0]).ok().and_then(|v| v.as_object().and_then(|o| o.keys().next().cloned())).unwrap_or_default()
                } else {
                    op.kind.clone()
                };
                operators.insert(name);
            }
        }
        let n = run.threads.len();
        let mut rng = Rng::new(prng::mix(wl_seed, &[0x9e5]));
        let mut wl_hash = prng::Hasher::new();
        for tl in &run.threads {
            for op in tl {
                wl_hash.str(&op.key());
            }
            wl_hash.str("|");
        }
        // one caller is profiled (its first call, single-stepped). Where every caller runs the same
        // operator its addresses serve for the others as well: any of them can be the victim.
        let same_code = run.shape.starts_with("one-operator") && run.shape != "one-operator-given";
        let mut victims: Vec<usize> = (0..n).collect();
        rng.shuffle(&mut victims);
        victims.truncate(if same_code { 2 } else { 1 });
        let probe = victims[0];
        let mut profiles: BTreeMap<usize, Vec<(u64, u32, bool)>> = BTreeMap::new();
        let mut pending: Vec<(E1Run, e1::RunReport)> = Vec::new();
        let sweep = sweep_every > 0 && workloads % sweep_every == 0;

        // --- discovery: the probe's calls with a breakpoint on every shared-access instruction of
        // the binary; what it executes is swept systematically below (cheap: a few dozen runs)
        let mut hot_stops: Vec<(u64, u32)> = Vec::new();
        {
            let mut drun = run.clone();
            drun.ptrace = Some(PtracePlan { segs: Vec::new(), profile: None, discover: Some(probe as u8), discover_late: false, warmup: warmup.clone() });
            let (rep, info) = e1::exec_in_child_traced(&drun, &isos);
            runs += 1;
            let info = info.unwrap_or_default();
            if let Some(msg) = &rep.stalled {
                if msg.starts_with("tracer set-up failed") {
                    harness_errors.push(format!("workload {:016x}: {}", wl_seed, msg));
                    break 'outer;
                }
                bump(&mut sums, "inconclusive_runs", 1);
                if notes.len() < 5 {
                    notes.push(format!("workload {:016x} (discovery): {}", wl_seed, msg));
                }
                continue 'outer;
            }
            bump(&mut sums, "discovery_runs", 1);
            bump(&mut sums, "calls", rep.calls);
            bump(&mut sums, "shared_access_instructions_executed_by_discovered_calls", info.discovered.len() as u64);
            if !rep.violations.is_empty() {
                pending.push((drun.clone(), rep.clone()));
            }
            for (a, c) in &info.discovered {
                for occ in 1..=(*c).min(4) {
                    hot_stops.push((*a, occ));
                }
            }
            hot_stops.truncate(160);
        }
        let do_profile = sweep || profile_every <= 1 || workloads % profile_every == 0;
        for &victim in &[probe] {
            if !do_profile {
                break;
            }
            // --- profile: the victim alone, single-stepped; the others afterwards
            let mut prun = run.clone();
            prun.ptrace = Some(PtracePlan { segs: Vec::new(), profile: Some(victim as u8), discover: None, discover_late: false, warmup: warmup.clone() });
            let (rep, info) = e1::exec_in_child_traced(&prun, &isos);
            runs += 1;
            let info = info.unwrap_or_default();
            if let Some(msg) = &rep.stalled {
                if msg.starts_with("tracer set-up failed") {
                    harness_errors.push(format!("workload {:016x}: {}", wl_seed, msg));
                    break 'outer;
                }
                // no profile, no stops to choose from: this workload is skipped
                bump(&mut sums, "inconclusive_runs", 1);
                if notes.len() < 5 {
                    notes.push(format!("workload {:016x} (profile): {}", wl_seed, msg));
                }
                continue 'outer;
            }
            bump(&mut sums, "profiles", 1);
            bump(&mut sums, "profile_instructions", info.profile.len() as u64);
            bump(&mut sums, "single_steps", info.single_steps);
            bump(&mut sums, "calls", rep.calls);
            if !rep.violations.is_empty() {
                pending.push((prun.clone(), rep.clone()));
            }
            let cands: Vec<(u64, u32, bool)> = candidates(&info.profile).into_iter().map(|(r, c)| (r, c, symbols.is_library(r))).collect();
            bump(&mut sums, "distinct_shared_access_instructions_profiled", cands.iter().filter(|c| symbols.is_shared_access(c.0)).count() as u64);
            bump(&mut sums, "distinct_instruction_addresses_profiled", cands.len() as u64);
            bump(&mut sums, "distinct_library_instruction_addresses_profiled", cands.iter().filter(|c| c.2).count() as u64);
            for v in &victims {
                profiles.insert(*v, cands.clone());
            }
        }
        for &victim in &victims {
            let cands: Vec<(u64, u32, bool)> = profiles.get(&victim).cloned().unwrap_or_default();
            let lib: Vec<(u64, u32, bool)> = cands.iter().filter(|c| c.2).cloned().collect();
            let hot: Vec<(u64, u32, bool)> = cands.iter().filter(|c| symbols.is_shared_access(c.0)).cloned().collect();
            let others: Vec<usize> = (0..n).filter(|t| *t != victim).collect();
            // --- the list of plans: every discovered shared-access stop; then sampled stops from the
            // profile, or (sweep) every library address at its first arrivals
            let mut plans: Vec<PtracePlan> = Vec::new();
            for st in &hot_stops {
                let mut segs = vec![Seg { thread: victim as u8, stop: Some(*st), plus: 0 }];
                for o in &others {
                    segs.push(Seg { thread: *o as u8, stop: None, plus: 0 });
                }
                plans.push(PtracePlan { segs, profile: None, discover: None, discover_late: false, warmup: warmup.clone() });
            }
            // ... and, after a shared access made by the library itself, each of the next instructions
            let mut near = 0u64;
            for st in hot_stops.iter().filter(|st| symbols.is_library_shared_access(st.0) && st.1 <= 3).take(24) {
                for k in 1..=12u32 {
                    let mut segs = vec![Seg { thread: victim as u8, stop: Some(*st), plus: k }];
                    for o in &others {
                        segs.push(Seg { thread: *o as u8, stop: None, plus: 0 });
                    }
                    plans.push(PtracePlan { segs, profile: None, discover: None, discover_late: false, warmup: warmup.clone() });
                    near += 1;
                }
            }
            bump(&mut sums, "systematic_stops_after_a_library_shared_access", near);
            // ... and two preemptions where the library itself touches shared memory: with the victim
            // standing at such a place, what does the next caller execute (the paths taken only under
            // contention: waiting for a result in flight, finding an entry somebody is filling)? Each
            // of its shared accesses is then a second stop.
            let lib_hot: Vec<(u64, u32)> = hot_stops.iter().filter(|st| symbols.is_library_shared_access(st.0) && st.1 <= 2).cloned().collect();
            if !lib_hot.is_empty() && !others.is_empty() {
                let o = others[0];
                let step = (lib_hot.len() / 4).max(1);
                let picks: Vec<(u64, u32)> = lib_hot.iter().step_by(step).take(4).cloned().collect();
                for s1 in picks {
                    let mut drun = run.clone();
                    drun.ptrace = Some(PtracePlan { segs: vec![Seg { thread: victim as u8, stop: Some(s1), plus: 0 }], profile: None, discover: Some(o as u8), discover_late: true, warmup: warmup.clone() });
                    let (rep, info) = e1::exec_in_child_traced(&drun, &isos);
                    runs += 1;
                    let info = info.unwrap_or_default();
                    bump(&mut sums, "discovery_runs_under_contention", 1);
                    if rep.stalled.is_some() {
                        bump(&mut sums, "inconclusive_runs", 1);
                        continue;
                    }
                    if !rep.violations.is_empty() {
                        pending.push((drun.clone(), rep.clone()));
                    }
                    let mut m = 0u64;
                    'second: for (a, c) in &info.discovered {
                        if !symbols.is_library_shared_access(*a) {
                            continue;
                        }
                        for occ in 1..=(*c).min(2) {
                            plans.push(PtracePlan {
                                segs: vec![
                                    Seg { thread: victim as u8, stop: Some(s1), plus: 0 },
                                    Seg { thread: o as u8, stop: Some((*a, occ)), plus: 0 },
                                    Seg { thread: victim as u8, stop: None, plus: 0 },
                                    Seg { thread: o as u8, stop: None, plus: 0 },
                                ],
                                profile: None,
                                discover: None,
                                discover_late: false,
                                warmup: warmup.clone(),
                            });
                            m += 1;
                            if m >= 40 {
                                break 'second;
                            }
                        }
                    }
                    bump(&mut sums, "systematic_second_stops_under_contention", m);
                }
            }
            bump(&mut sums, "systematic_shared_access_stops", hot_stops.len() as u64);
            if cands.is_empty() {
                // no profile for this workload
            } else if sweep {
                bump(&mut sums, "instruction_sweeps", 1);
                let mut stops: Vec<(u64, u32)> = Vec::new();
                for c in hot.iter() {
                    for occ in 1..=c.1.min(4) {
                        stops.push((c.0, occ));
                    }
                }
                let pool: &Vec<(u64, u32, bool)> = if lib.is_empty() { &cands } else { &lib };
                for c in pool.iter().take(1200) {
                    for occ in 1..=c.1.min(2) {
                        if !stops.contains(&(c.0, occ)) {
                            stops.push((c.0, occ));
                        }
                    }
                }
                for st in stops {
                    let mut segs = vec![Seg { thread: victim as u8, stop: Some(st), plus: 0 }];
                    for o in &others {
                        segs.push(Seg { thread: *o as u8, stop: None, plus: 0 });
                    }
                    plans.push(PtracePlan { segs, profile: None, discover: None, discover_late: false, warmup: warmup.clone() });
                }
            } else {
                // half of the stops right before an instruction that touches memory which is shared by
                // construction (a static, an atomic), the rest in library code and anywhere
                let pick = |rng: &mut Rng, all: &Vec<(u64, u32, bool)>, lib: &Vec<(u64, u32, bool)>, hot: &Vec<(u64, u32, bool)>| -> (u64, u32) {
                    if !hot.is_empty() && rng.chance(1, 2) {
                        let c = *rng.pick(hot);
                        return (c.0, 1 + rng.below(c.1.min(8) as usize) as u32);
                    }
                    let c = if !lib.is_empty() && rng.chance(3, 4) { *rng.pick(lib) } else { *rng.pick(all) };
                    let occ = if c.1 <= 1 {
                        1
                    } else if rng.chance(1, 5) {
                        c.1.min(40)
                    } else {
                        1 + rng.below(c.1.min(4) as usize) as u32
                    };
                    (c.0, occ)
                };
                for _ in 0..per_victim {
                    let mut os = others.clone();
                    rng.shuffle(&mut os);
                    let mut segs = vec![Seg { thread: victim as u8, stop: Some(pick(&mut rng, &cands, &lib, &hot)), plus: 0 }];
                    let second = os.first().and_then(|o| profiles.get(o).map(|p| (*o, p.clone())));
                    match second {
                        Some((o, pc)) if !pc.is_empty() && rng.chance(1, 3) => {
                            // two preemptions: the other caller is stopped inside its call too
                            let l2: Vec<(u64, u32, bool)> = pc.iter().filter(|c| c.2).cloned().collect();
                            let h2: Vec<(u64, u32, bool)> = pc.iter().filter(|c| symbols.is_shared_access(c.0)).cloned().collect();
                            segs.push(Seg { thread: o as u8, stop: Some(pick(&mut rng, &pc, &l2, &h2)), plus: 0 });
                            if rng.chance(1, 2) {
                                segs.push(Seg { thread: victim as u8, stop: Some(pick(&mut rng, &cands, &lib, &hot)), plus: 0 });
                                segs.push(Seg { thread: o as u8, stop: None, plus: 0 });
                            } else {
                                segs.push(Seg { thread: victim as u8, stop: None, plus: 0 });
                            }
                        }
                        _ => {
                            for o in &os {
                                segs.push(Seg { thread: *o as u8, stop: None, plus: 0 });
                            }
                        }
                    }
                    plans.push(PtracePlan { segs, profile: None, discover: None, discover_late: false, warmup: warmup.clone() });
                }
            }
            for plan in plans {
                if started.elapsed().as_secs_f64() > seconds + if sweep { 40.0 } else { 5.0 } {
                    if sweep {
                        bump(&mut sums, "instruction_sweeps_cut_short_by_the_time_budget", 1);
                    }
                    break;
                }
                let mut r = run.clone();
                r.ptrace = Some(plan.clone());
                let (rep, info) = e1::exec_in_child_traced(&r, &isos);
                let info = info.unwrap_or_default();
                runs += 1;
                if let Some(msg) = &rep.stalled {
                    // a caller that spins on something a stopped caller must do never reaches a stop (DESIGN.md s7)
                    bump(&mut sums, "inconclusive_runs", 1);
                    if notes.len() < 5 {
                        notes.push(format!("workload {:016x}: {}", wl_seed, msg));
                    }
                    if msg.starts_with("tracer set-up failed") {
                        harness_errors.push(format!("workload {:016x}: {}", wl_seed, msg));
                        break 'outer;
                    }
                    continue;
                }
                bump(&mut sums, "calls", rep.calls);
                bump(&mut sums, "stops_reached", info.stops_reached);
                if sweep {
                    bump(&mut sums, "instruction_sweep_schedules", 1);
                }
                bump(&mut sums, "stops_missed", info.stops_missed);
                bump(&mut sums, "breakpoint_hits", info.breakpoint_hits);
                bump(&mut sums, "syscall_stops", info.syscall_stops);
                bump(&mut sums, "single_steps", info.single_steps);
                bump(&mut sums, "threads_created_by_the_code_under_test", info.extra_threads);
                bump(&mut faults, "preemption-between-two-machine-instructions", info.stops_reached);
                bump(&mut faults, "caller-held-at-futex-wait-entry", info.blocked_events);
                bump(&mut faults, "other-thread-run-until-awaited-word-changed", info.helper_runs);
                bump(&mut faults, "busy-waiting-thread-halted-so-that-others-run", info.spin_yields);
                if plan.segs.iter().filter(|s| s.stop.is_some()).count() >= 2 && info.stops_reached >= 2 {
                    bump(&mut faults, "runs-with-two-or-more-preemptions", 1);
                }
                if info.stops_reached > 0 {
                    let mut h = prng::Hasher::new();
                    h.u64(wl_hash.0);
                    for s in &plan.segs {
                        h.u64(s.thread as u64);
                        if let Some((rip, occ)) = s.stop {
                            h.u64(rip);
                            h.u64(occ as u64);
                            h.u64(s.plus as u64);
                        }
                    }
                    points.insert(h.0);
                }
                if dump_hashes {
                    let mut h = prng::Hasher::new();
                    h.u64(rep.event_hash);
                    h.u64(info.stops_reached);
                    h.u64(info.breakpoint_hits);
                    h.u64(info.blocked_events);
                    hashes.insert(format!("{}:{}", wl_index, in_wl), format!("{:016x}", h.0));
                    in_wl += 1;
                }
                if samples.len() < 2 && info.stops_reached >= 1 {
                    samples.push(r.to_json());
                }
                if det_every > 0 && runs % det_every == 0 && rep.crashed.is_none() && info.spin_yields == 0 {
                    det_checked += 1;
                    let (again, info2) = e1::exec_in_child_traced(&r, &isos);
                    let info2 = info2.unwrap_or_default();
                    if again.event_hash != rep.event_hash || info2.stops_reached != info.stops_reached || info2.breakpoint_hits != info.breakpoint_hits || info2.blocked_events != info.blocked_events {
                        det_mismatch += 1;
                        harness_errors.push(format!("determinism: workload {:016x} plan {} gave {:016x}/{}/{} then {:016x}/{}/{}", wl_seed, plan.to_json(), rep.event_hash, info.stops_reached, info.breakpoint_hits, again.event_hash, info2.stops_reached, info2.breakpoint_hits));
                    }
                }
                if !rep.violations.is_empty() {
                    pending.push((r, rep));
                    if pending.len() >= 4 {
                        break;
                    }
                }
            }
        }
        for (r, rep) in pending {
            for v in rep.violations.iter() {
                let sig = v.signature();
                if !seen_sigs.insert(sig) {
                    continue;
                }
                let (min_run, min_v, execs) = if rep.crashed.is_none() && violations.len() < 3 { shrink_traced(&r, v, &mut oracle, 30) } else { (r.clone(), v.clone(), 0) };
                let name = format!("{}-e5-{:016x}-{}.json", min_v.property, wl_seed, violations.len());
                let path = format!("{}/{}", replay_dir, name);
                let doc = json!({
                    "engine": "e1", "scheduler": "e5-ptrace", "sim_profile": if cfg!(debug_assertions) { "dev" } else { "release" },
                    "property": min_v.property, "violation": min_v.to_json(), "original_violation": v.to_json(),
                    "verif_seed": seed, "tier": tier, "shrink_executions": execs,
                    "note": "addresses in the plan are those of the simulator binary built from the tree under test; replay rebuilds the same binary",
                    "stops_described": min_run.ptrace.as_ref().map(|p| p.segs.iter().filter_map(|s| s.stop.map(|(rip, occ)| format!("caller {} stopped before its arrival no. {} at {:#x} = {}{}{}", s.thread, occ, rip, symbols.describe(rip), if symbols.is_shared_access(rip) { " (touches a static or is an atomic operation)" } else { "" }, if s.plus > 0 { format!(", then {} more instruction(s)", s.plus) } else { String::new() }))).collect::<Vec<_>>()),
                    "run": min_run.to_json(),
                });
                let _ = std::fs::write(&path, serde_json::to_string_pretty(&doc).unwrap());
                violations.push(json!({"property": min_v.property, "class": min_v.class, "signature": min_v.signature(), "needs": min_v.needs, "replay": path,
                    "summary": format!("[instruction-level schedule] {} -> expected {} got {}", min_v.op.as_ref().map(|o| o.short()).unwrap_or_default(), min_v.expected, min_v.got)}));
            }
        }
    }

    let nt_path = format!("{}.nontrivial", out_path);
    let mut bytes = Vec::with_capacity(points.len() * 8);
    for h in &points {
        bytes.extend_from_slice(&h.to_le_bytes());
    }
    let _ = std::fs::write(&nt_path, bytes);
    bump(&mut sums, "workloads", workloads);
    let summary = json!({
        "engine": "e5", "worker": worker, "runs": runs, "sums": sums, "shapes": shapes, "faults_fired": faults,
        "determinism": {"checked": det_checked, "mismatches": det_mismatch},
        "oracle": {"forks": oracle.forks, "queries": oracle.queries, "memo": oracle.memo_len()},
        "nontrivial_file": nt_path, "nontrivial_local": points.len(),
        "violations": violations, "harness_errors": harness_errors, "notes": notes, "samples": samples,
        "hashes": hashes, "symbols_known": symbols.known(), "shared_access_instructions_known": symbols.shared_access_known(), "cells": operators.iter().collect::<Vec<_>>(),
        "wall_s": started.elapsed().as_secs_f64(),
    });
    if std::fs::write(&out_path, serde_json::to_string(&summary).unwrap()).is_err() {
        return 2;
    }
    if !harness_errors.is_empty() {
        2
    } else {
        0
    }
}
