//! Engine E3: a small seeded concurrent scenario for Miri.
//!
//! Miri is itself a seeded deterministic simulator of threads (`-Zmiri-seed`, preemption at
//! basic-block granularity) that also reports data races and undefined behaviour even when the
//! result happens to be right. This program gives it something to chew on: T threads evaluating
//! rules from a shared pool of `Arc<Value>`s, each result compared with the one computed
//! sequentially beforehand.
//!
//!   jlmiri <workload seed> [threads] [ops per thread]
//!
//! Exit 0 = all results equal; exit 1 = a result differed (printed); Miri itself aborts on UB / data race.

#[path = "../../sim/src/prng.rs"]
#[allow(dead_code)]
mod prng;
#[path = "../../sim/src/gen.rs"]
#[allow(dead_code)]
mod gen;

use serde_json::{json, Value};
use std::cell::RefCell;
use std::sync::{Arc, Barrier};

thread_local! {
    static EMIT: RefCell<String> = const { RefCell::new(String::new()) };
}

fn emit_hook(text: &str) {
    EMIT.with(|e| e.borrow_mut().push_str(text));
}

fn call(rule: &Value, data: &Value) -> (String, String) {
    EMIT.with(|e| e.borrow_mut().clear());
    let r = match std::panic::catch_unwind(|| jsonlogic_rs::apply(rule, data)) {
        Ok(Ok(v)) => format!("ok {}", v),
        Ok(Err(e)) => format!("err {}", e),
        Err(_) => "panic".to_string(),
    };
    let emitted = EMIT.with(|e| std::mem::take(&mut *e.borrow_mut()));
    (r, emitted)
}

/// Rules that keep several threads inside the leaf operators (string building, array joins,
/// comparisons through to_string, numeric folds) where the node-level scheduler of E1 cannot preempt.
fn leaf_heavy(rng: &mut prng::Rng, variant: u64) -> Value {
    let arr = |rng: &mut prng::Rng| Value::Array((0..rng.range(2, 4)).map(|_| gen::atom(rng)).collect());
    match variant % 20 {
        12 => json!({"max": [arr(rng), {"var": "a"}, 3, gen::atom(rng)]}),
        13 => json!({"-": [{"var": "b"}, gen::atom(rng)]}),
        14 => json!({"<": [gen::atom(rng), {"var": "p.y"}, gen::atom(rng)]}),
        15 => json!({"%": [gen::atom(rng), {"var": "o.x"}]}),
        16 => json!({"!==": [{"var": "a"}, gen::atom(rng)]}),
        17 => json!({"missing_some": [1, ["o.x", "p.z", "a"]]}),
        18 => json!({"*": [{"var": "p.y"}, "3px", gen::atom(rng)]}),
        19 => json!({"if": [{">=": [{"var": "a"}, gen::atom(rng)]}, {"min": [1, {"var": "b"}]}, {"/": [{"var": "p.y"}, 2]}]}),
        9 => json!({"cat": [{"var": "o.x"}, {"var": "o.x"}, {"var": "o.x"}, {"var": "o.x"}]}),
        10 => json!({"+": [{"var": "p.y"}, {"var": "p.y"}, {"var": "p.y"}, {"var": "o.x"}]}),
        11 => json!({"missing": ["o.x", "p.y", "o.z", "p.y", "q.w.e", "o.x"]}),
        0 => json!({"cat": [gen::atom(rng), arr(rng), gen::atom(rng), {"var": "a"}, "x"]}),
        1 => json!({"==": [arr(rng), {"cat": [{"var": "b"}, ""]}]}),
        2 => json!({"<": [arr(rng), arr(rng)]}),
        3 => json!({"merge": [arr(rng), {"var": "c"}, arr(rng)]}),
        4 => json!({"in": [gen::atom(rng), {"var": "c"}]}),
        5 => json!({"+": [arr(rng), {"var": "a"}, "12px"]}),
        6 => json!({"reduce": [{"var": "c"}, {"cat": [{"var": "accumulator"}, {"var": "current"}]}, ""]}),
        7 => json!({"map": [{"var": "c"}, {"log": {"var": ""}}]}),
        _ => json!({"substr": [{"cat": [arr(rng), "日本語"]}, rng.below(4) as i64, -(rng.below(3) as i64)]}),
    }
}

/// The shared pool of a workload: three leaf-heavy rules (variants cycled by the workload seed), one
/// rule evaluated against two documents that differ only in a short string (the same operator fed
/// different operands by different threads at the same time), and one generated rule.
fn build_pool(seed: u64) -> Vec<(Value, Value)> {
    let mut rng = prng::Rng::new(prng::mix(seed, &[3, 3]));
    let mut pool: Vec<(Value, Value)> = Vec::new();
    let doc = |rng: &mut prng::Rng| json!({"a": gen::atom(rng), "b": gen::atom(rng), "c": [gen::atom(rng), "s", 3, gen::atom(rng)], "o": {"x": 1}, "p": {"y": 2}});
    for i in 0..3u64 {
        let rule = leaf_heavy(&mut rng, seed * 3 + i);
        let data = doc(&mut rng);
        pool.push((rule, data));
    }
    let paired = match seed % 8 {
        0 => json!({"+": [{"var": "q"}, 0]}),
        1 => json!({"*": [{"var": "q"}, 2, {"var": "q"}]}),
        2 => json!({"<": [{"var": "q"}, "5", {"var": "r"}]}),
        3 => json!({"cat": [{"var": "q"}, {"var": "r"}, {"var": "q"}]}),
        4 => json!({"max": [{"var": "q"}, {"var": "r"}, 1]}),
        5 => json!({"==": [{"var": "q"}, 17]}),
        6 => json!({"-": [{"var": "q"}, {"var": "r"}]}),
        _ => json!({"in": [{"var": "q"}, "x17y42z"]}),
    };
    let shorts = ["17", "42", "3px", "1e3", " 7", "0.5", "-1", "08"];
    let q1 = shorts[(seed as usize) % shorts.len()];
    let q2 = shorts[(seed as usize + 1 + (seed as usize / 8) % 6) % shorts.len()];
    pool.push((paired.clone(), json!({"q": q1, "r": q2})));
    pool.push((paired, json!({"q": q2, "r": q1})));
    // one operator, two callers' worth of operands (the operator comes round with the workload seed):
    // whatever a leaf keeps across calls is written with one set of values and read with the other
    const OPS: &[&str] = &[
        "==", "!=", "===", "!==", "!", "!!", "<", "<=", ">", ">=", "+", "-", "*", "/", "%", "max", "min", "merge", "in", "cat", "substr", "log", "var", "missing",
        "missing_some", "if", "?:", "or", "and", "map", "filter", "reduce", "all", "some", "none",
    ];
    let op = OPS[(seed as usize) % OPS.len()];
    let words = ["apple", "pear", "é", "ab", "kiwi", "x.y", "b", "plum"];
    let use_words = (seed / OPS.len() as u64) % 2 == 1;
    let val = |i: usize| -> Value { if use_words { json!(words[i % words.len()]) } else { json!(shorts[i % shorts.len()]) } };
    let base = (seed as usize / 3) % 8;
    for side in 0..2usize {
        let v0 = val(base + side * 3);
        let v1 = val(base + side * 3 + 1);
        let r = match op {
            "var" => json!({"cat": [{"var": if side == 0 { "o.x" } else { "p.y" }}, "/", {"var": if side == 0 { "c.1" } else { "c.2" }}]}),
            "missing" => json!({"missing": [if side == 0 { "o.x" } else { "p.z" }, "zz", "a"]}),
            "missing_some" => json!({"missing_some": [1, [if side == 0 { "o.x" } else { "p.z" }, "zz"]]}),
            "map" | "filter" | "all" | "some" | "none" => json!({ op: [[v0.clone(), v1.clone(), v0.clone()], {"in": [{"var": ""}, [v0.clone()]]}] }),
            "reduce" => json!({"reduce": [[v0.clone(), v1.clone(), v0.clone()], {"cat": [{"var": "accumulator"}, {"var": "current"}]}, ""]}),
            "if" | "?:" => json!({ op: [v0.clone(), v1.clone(), v0.clone()] }),
            "substr" => json!({"substr": [v0.clone(), 1, 2]}),
            "in" => json!({"in": [v0.clone(), [v1.clone(), v0.clone()]]}),
            "merge" => json!({"merge": [[v0.clone(), v1.clone()], v0.clone()]}),
            "!" | "!!" | "log" => json!({ op: [v0.clone()] }),
            "-" | "/" | "%" => json!({ op: [v0.clone(), v1.clone()] }),
            _ => json!({ op: [v0.clone(), v1.clone(), v0.clone()] }),
        };
        pool.push((r, doc(&mut rng)));
    }
    pool
}

fn main() {
    let args: Vec<String> = std::env::args().collect();
    let seed: u64 = args.get(1).and_then(|s| s.parse().ok()).unwrap_or(1);
    let threads: usize = args.get(2).and_then(|s| s.parse().ok()).unwrap_or(3);
    let ops: usize = args.get(3).and_then(|s| s.parse().ok()).unwrap_or(1);
    jsonlogic_rs::verif::install(None, Some(emit_hook));
    std::panic::set_hook(Box::new(|_| {}));

    let mut rng = prng::Rng::new(prng::mix(seed, &[3, 3]));
    let pool = build_pool(seed);
    let k = pool.len();
    let _ = &mut rng;
    // expected outcomes, computed before any other thread exists
    let expected: Vec<(String, String)> = pool.iter().map(|(r, d)| call(r, d)).collect();
    let pool = Arc::new(pool);
    let expected = Arc::new(expected);
    let barrier = Arc::new(Barrier::new(threads));
    let mut handles = Vec::new();
    for t in 0..threads {
        let pool = pool.clone();
        let expected = expected.clone();
        let barrier = barrier.clone();
        let mut trng = prng::Rng::new(prng::mix(seed, &[3, 4, t as u64]));
        handles.push(std::thread::spawn(move || {
            barrier.wait();
            let mut bad = Vec::new();
            // every thread evaluates every rule of the pool, each in its own order, `ops` rounds
            let mut order: Vec<usize> = (0..pool.len()).collect();
            for round in 0..ops * pool.len() {
                if round % pool.len() == 0 {
                    trng.shuffle(&mut order);
                }
                let i = order[round % pool.len()];
                let got = call(&pool[i].0, &pool[i].1);
                if got != expected[i] {
                    bad.push(format!("thread {} rule {} data {}: expected {:?} got {:?}", t, pool[i].0, pool[i].1, expected[i], got));
                }
            }
            bad
        }));
    }
    let mut failed = false;
    for h in handles {
        for b in h.join().unwrap() {
            println!("MISMATCH {}", b);
            failed = true;
        }
    }
    // inputs unchanged
    let again = build_pool(seed);
    for i in 0..k {
        if again[i].0 != pool[i].0 || again[i].1 != pool[i].1 {
            println!("MISMATCH input {} was modified", i);
            failed = true;
        }
    }
    std::process::exit(if failed { 1 } else { 0 });
}
